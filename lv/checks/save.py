"""C12 (a save that fails leaves no entry that looks cached) and C13 (killing a task mid-save cannot
poison the cache), decided by spec/SaveProtocol.tla + spec/SaveObs.tla.

1. TLC model-checks the save protocol of the code (meta-last) for a first save and an overwrite under
   every single Raise / Kill (NoPoison, DoneIsLoadable, RaisedLeavesNothingNew).
2. The real BaseCache.save is run with one fault (C12: the k-th storage / IO operation raises, the k-th
   executed labtech line raises, or the result cannot be serialised) or one crash (C13: the worker process
   kills itself at the k-th operation / line, optionally after half of a write) for every k; a later Lab
   then observes is_cached, cached_tasks, a direct load and a re-run.
3. TLC evaluates SaveProtocol!ObsPoison on every observation (verdict) and compares the recorded operation
   sequence of the unfaulted save with the protocol (drift).
"""
from __future__ import annotations

import itertools
import json
import random
import time
from pathlib import Path

from lv import harness, tlc

QUICK = {
    'C12': dict(fmts=('pickle', 'json'), shapes=('small', 'big', 'unpicklable'), providers=('local',),
                fs_sample=2, line_limit=50, op_limit=None),
    'C13': dict(fmts=('pickle',), shapes=('small', 'big'), providers=('local',), backends=('fork',), op_limit=14,
                line_limit=12, spawn_jobs=1, sigterm=False),
}
THOROUGH = {
    'C12': dict(fmts=('pickle', 'json'), shapes=('small', 'big', 'unpicklable'), providers=('local', 'fsspec'),
                fs_sample=0, line_limit=None, op_limit=None),
    'C13': dict(fmts=('pickle', 'json'), shapes=('small', 'big'), providers=('local', 'fsspec'), backends=('fork', 'spawn'),
                op_limit=None, line_limit=None, spawn_jobs=0, sigterm=True),
}


def jobs_for(prop, tier, seed):
    cfg = (QUICK if tier == 'quick' else THOROUGH)[prop]
    kind = 'raise' if prop == 'C12' else 'kill'
    rnd = random.Random(seed)
    jobs = []
    combos = list(itertools.product(cfg['fmts'], cfg['shapes'], (False, True), cfg['providers']))
    for fmt, shape, ow, prov in combos:
        for backend in cfg.get('backends', ('serial',)):
            base = dict(fmt=fmt, shape=shape, overwrite=ow, provider=prov, backend=backend, seed=rnd.randrange(10 ** 6))
            jobs.append(dict(base, id=f'{prop}-{fmt}-{shape}-{"ow" if ow else "first"}-{prov}-{backend}-op',
                             plan={'mode': 'record'}, expand=kind, limit=cfg['op_limit'], sigterm=cfg.get('sigterm', False)))
            if shape != 'unpicklable':
                jobs.append(dict(base, id=f'{prop}-{fmt}-{shape}-{"ow" if ow else "first"}-{prov}-{backend}-line',
                                 plan={'mode': 'line-record'}, expand=kind, limit=cfg['line_limit']))
    if prop == 'C12' and cfg.get('fs_sample'):
        for k in range(cfg['fs_sample']):
            fmt, shape, ow = rnd.choice(cfg['fmts']), rnd.choice(cfg['shapes']), rnd.choice((False, True))
            jobs.append(dict(fmt=fmt, shape=shape, overwrite=ow, provider='fsspec', backend='serial', seed=k,
                             id=f'{prop}-{fmt}-{shape}-{"ow" if ow else "first"}-fsspec-serial-op{k}',
                             plan={'mode': 'record'}, expand=kind, limit=None))
    if prop == 'C13':
        # kills just before every filesystem mutation (also those inside library calls), both directory listing orders
        for fmt, ow, order in itertools.product(cfg['fmts'], (False, True), ('asc', 'desc')):
            for prov in cfg['providers']:
                jobs.append(dict(fmt=fmt, shape='small', overwrite=ow, provider=prov, backend='fork', seed=0,
                                 id=f'{prop}-{fmt}-small-{"ow" if ow else "first"}-{prov}-fork-audit-{order}',
                                 plan={'mode': 'audit-record', 'order': order}, expand=kind, limit=None))
        for k in range(cfg.get('spawn_jobs', 0)):
            jobs.append(dict(fmt='pickle', shape='small', overwrite=bool(k % 2), provider='local', backend='spawn',
                             seed=k, id=f'{prop}-pickle-small-spawn{k}-op', plan={'mode': 'record'}, expand=kind, limit=6))
    return jobs


def judge(obs: list, scratch: Path):
    """TLC: model-check the protocol and evaluate the observation predicate; returns verdicts by id."""
    verdicts, states, gen = {}, 0, 0
    for ow, cfgname in ((False, 'SaveObs_first.cfg'), (True, 'SaveObs_ow.cfg')):
        part = [o for o in obs if bool(o['overwrite']) == ow]
        f = scratch / f'obs_{int(ow)}.ndjson'
        keep = ('id', 'mode', 'overwrite', 'is_cached', 'listed', 'list_raises', 'same_is_cached', 'same_listed',
                'same_list_raises', 'load_ok', 'load_val', 'meta_val',
                'rerun_applicable', 'rerun_ok', 'rerun_val', 'task_failed', 'fault_hit', 'fault_free', 'ops')
        tlc.dump_ndjson(f, [{k: o[k] for k in keep} for o in part])
        r = tlc.run_tlc('SaveObs', cfgname, scratch=scratch, workers=1, heap='2g', env={'LV_OBS': str(f)}, tag=f'so{int(ow)}')
        if r.error or r.violated:
            raise tlc.TLCMachineryError(f'SaveObs/SaveProtocol failed: {r.error or r.violated}\n{r.out[-2500:]}')
        states += r.distinct
        gen += r.generated
        for p in r.prints:
            d = json.loads(p)
            verdicts[d['id']] = d
        if len([1 for o in part if o['id'] in verdicts]) != len(part):
            raise tlc.TLCMachineryError('missing verdicts from SaveObs')
    return verdicts, states, gen


def run(prop: str, tier: str) -> int:
    t0 = time.time()
    seed = harness.seed_from_env()
    rep = harness.Report(prop)
    with harness.Scratch() as scratch:
        jobs = jobs_for(prop, tier, seed)
        obs = harness.run_jobs(jobs, scratch, module='lv.rigs.savefault')
        verdicts, states, gen = judge(obs, scratch)
        nviol, drift, hits = 0, 0, 0
        for o in obs:
            v = verdicts[o['id']]
            drift += int(v['drift'])
            hits += int(o['fault_hit'])
            bad = v['poison'] or (prop == 'C12' and v['notfailed'])
            if bad:
                nviol += 1
                scen = f'{"overwrite" if o["overwrite"] else "first-save"}/{o["fmt"]}/{o["shape"]}/{o["provider"]}/{o["backend"]}'
                what = 'poisoned entry' if v['poison'] else 'save raised but the task was not reported failed'
                fid = f'{scen}/{o["mode"]}@{o.get("op") or o["at"]}'
                rep.violation(fid, f'{what}: is_cached={o["is_cached"]} (saving Lab: {o["same_is_cached"]}) listed={o["listed"]} '
                                   f'(saving Lab: {o["same_listed"]}) list_raises={o["list_raises"]} re-run by {o["rerun_by"]} Lab '
                                   f'load_ok={o["load_ok"]} load_val={o["load_val"]} rerun_ok={o["rerun_ok"]} files={o.get("files")}',
                              {'property': prop, 'kind': 'save-fault', 'job': {k: o[k] for k in ('fmt', 'shape', 'overwrite', 'provider', 'backend')},
                               'plan': {'mode': o['mode'], 'at': o['at']}, 'observation': o})
        injected = [o for o in obs if o['mode'] not in ('record', 'line-record')]
        cov = {
            'states': states, 'transitions': gen,
            'traces_validated_against_impl': len(obs),
            'samples': [{k: v for k, v in o.items() if k not in ('raw_ops',)} for o in injected[:2]] or [obs[0]],
            'evaluations': len(obs),
            'distinct_nontrivial': len({(o['fmt'], o['shape'], o['overwrite'], o['provider'], o['backend'], o['mode'], o['at'],
                                         o['id']) for o in injected if o['fault_hit']}),
            'rule': 'one observation per (scenario, injection point); non-trivial = the injected fault / crash was actually hit '
                    '(the task failed or died); distinct by scenario and injection point',
            'exhaustive': tier == 'thorough',
            'injection_points_hit': hits,
            'scenarios': len(jobs),
            'drift_observations': drift,
            'model': {'module': 'SaveProtocol (meta-last), first save and overwrite', 'distinct_states': states},
            'violating_observations': nviol,
        }
        rc = rep.finish()
        harness.write_evidence(prop, tier, seed, 'model_checking', cov, time.time() - t0, nviol, [
            'faults are injected at the storage API / IO-object level and at executed labtech lines; the kernel decides which '
            'buffered bytes survive a SIGKILL (half-writes with and without flush are forced explicitly)',
            'sha1 / pickle / json are trusted'])
        return rc


def replay(payload, path, scratch):
    job = dict(payload['job'], id='replay', plan=dict(payload['plan']), seed=0)
    obs = harness.run_jobs([job], scratch, module='lv.rigs.savefault', procs=1)
    verdicts, _, _ = judge(obs, scratch)
    print(json.dumps(obs[0], indent=1)[:3000])
    v = verdicts['replay']
    if v['poison'] or (payload['property'] == 'C12' and v['notfailed']):
        print(f'VIOLATION property={payload["property"]} replay={path}')
        return 1
    print('replay: the property holds on this injection')
    return 0
