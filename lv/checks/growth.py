"""./check --growth: specifications beyond the listed properties, each bound to the code the same way
(TLC enumerates call sequences; the real class replays them; TLC judges the replies).

  FutureFSM       labtech.runners.process.Future
  SmallModels     labtech.utils.LoggerFileProxy, labtech.utils.OrderedSet, labtech.runners.process.ProcessMonitor
"""
from __future__ import annotations

import json
import time

from lv import harness, tlc


def _one(scratch, module, gen_cfg, judge_cfg, rig, jobfn, keep):
    r = tlc.run_tlc(module, gen_cfg, scratch=scratch, workers=4, heap='2g', tag='gg', timeout=900)
    if r.error or r.violated:
        return False, f'{module}/{gen_cfg}: model failed: {r.error or r.violated}'
    seqs = [json.loads(p) for p in r.prints]
    obs = harness.run_jobs([jobfn(seqs)], scratch, module=rig, procs=1)
    f = scratch / f'obs_{gen_cfg}.ndjson'
    tlc.dump_ndjson(f, [{k: o[k] for k in keep} for o in obs])
    j = tlc.run_tlc(module, judge_cfg, scratch=scratch, workers=1, heap='2g', env={'LV_OBS': str(f)}, tag='gj', timeout=900)
    if j.error or j.violated:
        return False, f'{module}/{judge_cfg}: judge failed: {j.error or j.violated}'
    verdicts = [json.loads(p) for p in j.prints]
    bad = [v['id'] for v in verdicts if not v['ok']]
    first = next((o for o in obs if o['id'] in bad), None)
    return (not bad and len(verdicts) == len(obs)), (f'{module}/{gen_cfg}: {r.distinct} states, {len(obs)} call sequences replayed, '
                                                    f'{len(bad)} disagree' + (f'; first: {json.dumps(first)[:300]}' if first else ''))


def main() -> int:
    t0 = time.time()
    ok = True
    with harness.Scratch() as scratch:
        runs = [
            ('FutureFSM', 'FutureFSM_gen.cfg', 'FutureFSM_judge.cfg', 'lv.rigs.future',
             lambda seqs: {'id': 'fut', 'seqs': [[h[0] for h in s] for s in seqs]}, ('id', 'ops', 'replies')),
            ('SmallModels', 'SmallModels_proxy_gen.cfg', 'SmallModels_proxy_judge.cfg', 'lv.rigs.small',
             lambda seqs: {'id': 'proxy', 'which': 'proxy', 'seqs': seqs}, ('id', 'ops', 'delivered')),
            ('SmallModels', 'SmallModels_oset_gen.cfg', 'SmallModels_oset_judge.cfg', 'lv.rigs.small',
             lambda seqs: {'id': 'oset', 'which': 'oset', 'seqs': seqs}, ('id', 'ops', 'replies')),
            ('SmallModels', 'SmallModels_monitor_gen.cfg', 'SmallModels_monitor_judge.cfg', 'lv.rigs.small',
             lambda seqs: {'id': 'mon', 'which': 'monitor', 'seqs': seqs}, ('id', 'ops', 'replies')),
        ]
        for args in runs:
            good, msg = _one(scratch, *args)
            print(('[ok] ' if good else '[MISMATCH] ') + msg)
            ok = ok and good
    print(f'growth specifications {"agree with the code" if ok else "DISAGREE with the code"} ({time.time() - t0:.0f}s)')
    return 0 if ok else 1
