"""./check --growth: specifications beyond the listed properties, each bound to the code the same way
(TLC enumerates call sequences; the real class replays them; TLC judges the replies).

  FutureFSM       labtech.runners.process.Future
  SmallModels     labtech.utils.LoggerFileProxy, labtech.utils.OrderedSet, labtech.runners.process.ProcessMonitor
  TopList         TaskMonitor: the displayed list of top active tasks (stable sort, reversal, top_n, column alignment)
  TaskDef         the class decorator labtech.task: what it refuses, and the options / behaviour of the type it returns
  CycleCheck      TaskState.check_cyclic_dependences: the code's DFS against reachability on every small dependency graph
  StorageSeq      the Storage interface as a sequential object: LocalStorage and FsspecStorage (local filesystem)
  LabRunTrace     implementation-level trace validation: is every recorded execution (hook events + the rig's environment
                  steps) a behaviour of LabRun?  A drift measure of the model, not a property verdict.
  LabRun (Grow)   task naming (G01) and progress bars (G02) of TaskCoordinator.run: model-checked through the
                  refinement mapping, then judged by the monitor on executions along TLC-generated schedules
"""
from __future__ import annotations

import json
import time

from lv import harness, tlc


def _one(scratch, module, gen_cfg, judge_cfg, rig, jobfn, keep):
    r = tlc.run_tlc(module, gen_cfg, scratch=scratch, workers=4, heap='2g', tag='gg', timeout=900)
    if r.error or r.violated:
        return False, f'{module}/{gen_cfg}: model failed: {r.error or r.violated}'
    seqs = [json.loads(p) for p in r.prints]
    obs = harness.run_jobs([jobfn(seqs)], scratch, module=rig, procs=1)
    f = scratch / f'obs_{gen_cfg}.ndjson'
    tlc.dump_ndjson(f, [{k: o[k] for k in keep} for o in obs])
    j = tlc.run_tlc(module, judge_cfg, scratch=scratch, workers=1, heap='2g', env={'LV_OBS': str(f)}, tag='gj', timeout=900)
    if j.error or j.violated:
        return False, f'{module}/{judge_cfg}: judge failed: {j.error or j.violated}'
    verdicts = [json.loads(p) for p in j.prints]
    bad = [v['id'] for v in verdicts if not v['ok']]
    first = next((o for o in obs if o['id'] in bad), None)
    return (not bad and len(verdicts) == len(obs)), (f'{module}/{gen_cfg}: {r.distinct} states, {len(obs)} call sequences replayed, '
                                                    f'{len(bad)} disagree' + (f'; first: {json.dumps(first)[:300]}' if first else ''))


def storage_seq(scratch):
    """StorageSeq: every call sequence of length 4 on LocalStorage and on an FsspecStorage over the local filesystem."""
    r = tlc.run_tlc('StorageSeq', 'StorageSeq_gen.cfg', scratch=scratch, workers=4, heap='4g', tag='sg', timeout=1800)
    if r.error or r.violated:
        return False, f'StorageSeq: model failed: {r.error or r.violated}'
    seqs = [json.loads(p) for p in r.prints]
    n = 12
    jobs = [{'id': f'st{i}', 'seqs': seqs[i::n]} for i in range(n)]
    obs = harness.run_jobs(jobs, scratch, module='lv.rigs.storageseq', procs=n)
    # non-vacuity: recordings with one reply altered must be judged as disagreeing
    bad = []
    for o in obs[:300]:
        c = dict(o, id=o['id'] + '~corrupt', replies=list(o['replies']))
        c['replies'][-1] = 'none' if c['replies'][-1] != 'none' else 'True'
        bad.append(c)
    f = scratch / 'obs_storageseq.ndjson'
    tlc.dump_ndjson(f, [{k: o[k] for k in ('id', 'ops', 'replies')} for o in obs + bad])
    j = tlc.run_tlc('StorageSeq', 'StorageSeq_judge.cfg', scratch=scratch, workers=1, heap='6g', env={'LV_OBS': str(f)}, tag='sj', timeout=1800)
    if j.error or j.violated:
        return False, f'StorageSeq: judge failed: {j.error or j.violated}'
    verdicts = {v['id']: v['ok'] for v in (json.loads(p) for p in j.prints)}
    disagree = [o for o in obs if not verdicts.get(o['id'], False)]
    missed = [c['id'] for c in bad if verdicts.get(c['id'], True)]
    first = disagree[0] if disagree else None
    ok = not disagree and not missed and len(obs) == 2 * len(seqs) and len(seqs) > 1000
    return ok, (f'StorageSeq: {r.distinct} states, {len(seqs)} call sequences replayed on 2 providers, {len(disagree)} disagree; '
                f'{len(bad)} corrupted recordings, {len(bad) - len(missed)} rejected'
                + (f'; first: {json.dumps(first)[:400]}' if first else ''))


def cycle_check(scratch):
    """CycleCheck: the DFS of check_cyclic_dependences against reachability, on every dependency graph over 4 nodes
    (no self-loops) and over 3 nodes (with self-loops); then the real method on the same graphs."""
    graphs, states = [], 0
    for cfg in ('CycleCheck_gen.cfg', 'CycleCheck_loops.cfg'):
        r = tlc.run_tlc('CycleCheck', cfg, scratch=scratch, workers=4, heap='2g', tag='cg', timeout=900)
        if r.error or r.violated:
            return False, f'CycleCheck/{cfg}: model failed: {r.error or r.violated}'
        graphs += [json.loads(p) for p in r.prints]
        states += r.distinct
    obs = harness.run_jobs([{'id': f'cy{i}', 'graphs': graphs[i::4]} for i in range(4)], scratch, module='lv.rigs.cyclecheck', procs=4)
    bad = [dict(o, id=o['id'] + '~corrupt', verdict='ok' if o['verdict'] != 'ok' else 'cyclic') for o in obs[:200]]
    f = scratch / 'obs_cycle.ndjson'
    tlc.dump_ndjson(f, [{k: o[k] for k in ('id', 'graph', 'verdict')} for o in obs + bad])
    j = tlc.run_tlc('CycleCheck', 'CycleCheck_judge.cfg', scratch=scratch, workers=1, heap='2g', env={'LV_OBS': str(f)}, tag='cj', timeout=900)
    if j.error or j.violated:
        return False, f'CycleCheck: judge failed: {j.error or j.violated}'
    verdicts = {v['id']: v['ok'] for v in (json.loads(p) for p in j.prints)}
    disagree = [o for o in obs if not verdicts.get(o['id'], False)]
    missed = [c['id'] for c in bad if verdicts.get(c['id'], True)]
    cyc = sum(1 for o in obs if o['verdict'] == 'cyclic')
    first = disagree[0] if disagree else None
    ok = not disagree and not missed and len(obs) == 2 * len(graphs) and cyc > 0 and cyc < len(obs)
    return ok, (f'CycleCheck: {states} graphs model-checked (DFS verdict = reachability), {len(obs)} calls of the real method '
                f'({cyc} report a cycle), {len(disagree)} disagree; {len(bad)} corrupted verdicts, {len(bad) - len(missed)} rejected'
                + (f'; first: {json.dumps(first)[:300]}' if first else ''))


def task_def(scratch):
    """TaskDef: every class definition of the model through the real decorator."""
    r = tlc.run_tlc('TaskDef', 'TaskDef_gen.cfg', scratch=scratch, workers=4, heap='2g', tag='tg', timeout=900)
    if r.error or r.violated:
        return False, f'TaskDef: model failed: {r.error or r.violated}'
    cases = [json.loads(p) for p in r.prints]
    obs = harness.run_jobs([{'id': f'td{i}', 'cases': cases[i::4]} for i in range(4)], scratch, module='lv.rigs.taskdef', procs=4)
    bad = []
    for o in obs[:200]:
        g = dict(o['got'])
        g['err'] = 'AttributeError' if g['err'] != 'AttributeError' else ''
        bad.append(dict(o, id=o['id'] + '~corrupt', got=g))
    f = scratch / 'obs_taskdef.ndjson'
    tlc.dump_ndjson(f, [{k: o[k] for k in ('id', 'case', 'got')} for o in obs + bad])
    j = tlc.run_tlc('TaskDef', 'TaskDef_judge.cfg', scratch=scratch, workers=1, heap='2g', env={'LV_OBS': str(f)}, tag='tj', timeout=900)
    if j.error or j.violated:
        return False, f'TaskDef: judge failed: {j.error or j.violated}'
    verdicts = {v['id']: v['ok'] for v in (json.loads(p) for p in j.prints)}
    disagree = [o for o in obs if not verdicts.get(o['id'], False)]
    missed = [c['id'] for c in bad if verdicts.get(c['id'], True)]
    acc = sum(1 for o in obs if o['got']['err'] == '')
    first = disagree[0] if disagree else None
    ok = not disagree and not missed and len(obs) == len(cases) and 0 < acc < len(obs)
    return ok, (f'TaskDef: {r.distinct} class definitions, {len(obs)} passed through the real decorator ({acc} accepted), '
                f'{len(disagree)} disagree; {len(bad)} corrupted observations, {len(bad) - len(missed)} rejected'
                + (f'; first: {json.dumps(first)[:400]}' if first else ''))


def top_list(scratch):
    """TopList: the task monitor's list of top active tasks, every case of the model through the real TaskMonitor."""
    r = tlc.run_tlc('TopList', 'TopList_gen.cfg', scratch=scratch, workers=4, heap='2g', tag='pg', timeout=900)
    if r.error or r.violated:
        return False, f'TopList: model failed: {r.error or r.violated}'
    cases = [json.loads(p) for p in r.prints]
    obs = harness.run_jobs([{'id': f'tl{i}', 'cases': cases[i::4]} for i in range(4)], scratch, module='lv.rigs.toplist', procs=4)
    bad = []
    for o in [x for x in obs if len(x['got']['lines']) >= 2][:200]:
        g = json.loads(json.dumps(o['got']))
        g['lines'][0], g['lines'][1] = g['lines'][1], g['lines'][0]
        if g != o['got']:
            bad.append(dict(o, id=o['id'] + '~corrupt', got=g))
    f = scratch / 'obs_toplist.ndjson'
    tlc.dump_ndjson(f, [{'id': o['id'], 'case': o['case'], 'got': {k: o['got'][k] for k in ('lines', 'header_count', 'blanks')}} for o in obs + bad])
    j = tlc.run_tlc('TopList', 'TopList_judge.cfg', scratch=scratch, workers=1, heap='2g', env={'LV_OBS': str(f)}, tag='pj', timeout=900)
    if j.error or j.violated:
        return False, f'TopList: judge failed: {j.error or j.violated}'
    verdicts = {v['id']: v['ok'] for v in (json.loads(p) for p in j.prints)}
    disagree = [o for o in obs if not verdicts.get(o['id'], False)]
    missed = [c['id'] for c in bad if verdicts.get(c['id'], True)]
    first = disagree[0] if disagree else None
    ok = not disagree and not missed and len(obs) == len(cases) and len(bad) > 50
    return ok, (f'TopList: {r.distinct} cases model-checked, {len(obs)} displays of the real TaskMonitor judged, {len(disagree)} disagree; '
                f'{len(bad)} displays with two lines swapped, {len(bad) - len(missed)} rejected'
                + (f'; first: {json.dumps(first)[:500]}' if first else ''))


def labrun_growth(scratch):
    """G01 / G02: the same flow as the LabRun-based property checks (model check, schedules, R2 executions, monitor)."""
    import random
    from lv import families
    from lv.families import UNL
    seed = harness.seed_from_env()
    cfgs = families.family(3, seed=seed, ntypes=2, maxpars=(1, UNL), maxws=(1, 2), backends=('fork', 'spawn', 'serial'),
                           cached='all-subsets', reqs='subsets', fails='singles', cofs=(True, False), sample=400)
    invs = ['A_G01_Names', 'A_G02_Bars', 'A_G02_Count', 'A_G02_Closed']
    mc = harness.model_check(cfgs, harness.labrun_cfg_text(invariants=invs, max_int=1, grow=True), scratch, tag='grow')
    if mc.error or mc.violated:
        return False, f'LabRun(Grow): model failed: {mc.error or mc.violated}\n{tlc.compact_cex(mc.cex)[:2000]}'
    scheds = harness.simulate_schedules(cfgs, scratch, num=800, seed=seed) + \
        harness.simulate_schedules(cfgs, scratch, num=300, seed=seed + 1, max_int=1)
    rnd = random.Random(seed)
    jobs = [{'id': f'G-s{k}', 'cfg': cfgs[ci], 'schedule': h, 'shape_seed': rnd.randrange(10 ** 6), 'progress': True}
            for k, (ci, h, _e) in enumerate(scheds)]
    # enough tasks of one type for the zero-padding to matter (10, 11 and 12 tasks: one and two digits)
    for k, (n, backend) in enumerate([(10, 'serial'), (11, 'fork'), (12, 'serial'), (12, 'spawn')]):
        deps = [[] for _ in range(n)]
        deps[n - 1] = [1, 2]
        wide = families.mk(n, deps, [1] * (n - 1) + [2], [UNL, UNL], [True, True], [], list(range(n, 0, -1)), backend, 3)
        jobs.append({'id': f'G-w{k}', 'cfg': wide, 'schedule': [], 'shape_seed': k, 'progress': True})
    traces = harness.run_jobs(jobs, scratch)
    val = harness.validate_parallel(traces, scratch, props='G01,G02')
    bad = {tid: v for tid, v in val['verdicts'].items() if v}
    named = sum(1 for t in traces for e in t['ev'] if e.get('pname'))
    bars = sum(1 for t in traces for e in t['ev'] if e['e'] == 'pb_new')
    first = next(iter(bad.items()), None)
    return (not bad and named > 0 and bars > 0), (
        f'LabRun(Grow): {len(cfgs)} configurations, {mc.distinct} states; {len(traces)} executions with {named} observed process '
        f'names and {bars} progress bars judged by the monitor, {len(bad)} disagree' + (f'; first: {first}' if first else ''))


def labrun_conformance(scratch):
    """Executions along TLC-generated schedules (no interrupts, and interrupts at the locations where a hook event
    coincides with an action boundary of the model), validated event by event against LabRun's actions; then the same
    with one recorded field corrupted / one event moved or dropped, which must be rejected."""
    import copy
    import random
    from lv import conform, families
    from lv.families import UNL
    seed = harness.seed_from_env()
    cfgs = families.family(3, seed=seed, ntypes=2, maxpars=(1, UNL), maxws=(1, 2), backends=('fork', 'spawn', 'serial'),
                           cached='all-subsets', reqs='subsets', fails='singles', cofs=(True, False), sample=400)
    exact = ('plan', 'wait_consume', 'ser_run')
    scheds = harness.simulate_schedules(cfgs, scratch, num=900, seed=seed) + \
        [x for x in harness.simulate_schedules(cfgs, scratch, num=900, seed=seed + 1, max_int=2)
         if all(e[0] != 'int' or e[1] in exact for e in x[1])]
    rnd = random.Random(seed)
    jobs = [{'id': f'cf-{k}', 'cfg': cfgs[ci], 'schedule': h, 'shape_seed': rnd.randrange(10 ** 6), 'keep_raw': True}
            for k, (ci, h, _e) in enumerate(scheds)]
    traces = harness.run_jobs(jobs, scratch)
    items = [{'tid': t['tid'], 'cfg': t['cfg'], 'raw': t['raw'], 'dep_order': t.get('dep_order')} for t in traces
             if t['raw'][-1]['e'] != 'hang']
    res = conform.validate(items, scratch)
    rej = [d for d in res['verdicts'].values() if not d['accepted']]
    # non-vacuity: corrupted recordings must be rejected
    def corrupt(raw, how):
        raw = copy.deepcopy(raw)
        subs = [i for i, e in enumerate(raw) if e['e'] == 'submit']
        if how == 'swap-submits' and len(subs) >= 2:
            i, j = subs[0], subs[1]
            raw[i], raw[j] = raw[j], raw[i]
        elif how == 'held' and any(e['e'] == 'complete' for e in raw):
            e = next(e for e in raw if e['e'] == 'complete')
            e['held'] = sorted(set(e['held']) ^ {1})
        elif how == 'drop-pstart' and any(e['e'] == 'pstart' for e in raw):
            raw.remove(next(e for e in raw if e['e'] == 'pstart'))
        elif how == 'uc' and subs:
            raw[subs[0]]['uc'] = 1 - raw[subs[0]]['uc']
        else:
            return None
        return raw
    bad_items, k = [], 0
    for it in items[:200]:
        how = ('swap-submits', 'held', 'drop-pstart', 'uc')[k % 4]
        raw = corrupt(it['raw'], how)
        if raw is not None and conform.project(raw) != conform.project(it['raw']):
            bad_items.append({'tid': f'{it["tid"]}~{how}', 'cfg': it['cfg'], 'raw': raw, 'dep_order': it.get('dep_order')})
            k += 1
    bres = conform.validate(bad_items, scratch)
    missed = [d['tid'] for d in bres['verdicts'].values() if d['accepted']]
    first = rej[0] if rej else None
    ok = not rej and not missed and len(items) > 100 and len(bad_items) > 50
    return ok, (f'LabRunTrace: {len(items)} recorded executions ({sum(1 for t in traces if any(e["e"] == "int" for e in t["raw"]))} interrupted), '
                f'{len(items) - len(rej)} are behaviours of LabRun ({res["states"]} states); {len(bad_items)} corrupted recordings, '
                f'{len(bad_items) - len(missed)} rejected'
                + (f'; first unexplained: {json.dumps(first)[:400]}' if first else '') + (f'; corrupted but accepted: {missed[:5]}' if missed else ''))


def main() -> int:
    t0 = time.time()
    ok = True
    with harness.Scratch() as scratch:
        runs = [
            ('FutureFSM', 'FutureFSM_gen.cfg', 'FutureFSM_judge.cfg', 'lv.rigs.future',
             lambda seqs: {'id': 'fut', 'seqs': [[h[0] for h in s] for s in seqs]}, ('id', 'ops', 'replies')),
            ('SmallModels', 'SmallModels_proxy_gen.cfg', 'SmallModels_proxy_judge.cfg', 'lv.rigs.small',
             lambda seqs: {'id': 'proxy', 'which': 'proxy', 'seqs': seqs}, ('id', 'ops', 'delivered')),
            ('SmallModels', 'SmallModels_oset_gen.cfg', 'SmallModels_oset_judge.cfg', 'lv.rigs.small',
             lambda seqs: {'id': 'oset', 'which': 'oset', 'seqs': seqs}, ('id', 'ops', 'replies')),
            ('SmallModels', 'SmallModels_monitor_gen.cfg', 'SmallModels_monitor_judge.cfg', 'lv.rigs.small',
             lambda seqs: {'id': 'mon', 'which': 'monitor', 'seqs': seqs}, ('id', 'ops', 'replies')),
        ]
        for args in runs:
            good, msg = _one(scratch, *args)
            print(('[ok] ' if good else '[MISMATCH] ') + msg)
            ok = ok and good
        good, msg = top_list(scratch)
        print(('[ok] ' if good else '[MISMATCH] ') + msg)
        ok = ok and good
        good, msg = task_def(scratch)
        print(('[ok] ' if good else '[MISMATCH] ') + msg)
        ok = ok and good
        good, msg = cycle_check(scratch)
        print(('[ok] ' if good else '[MISMATCH] ') + msg)
        ok = ok and good
        good, msg = storage_seq(scratch)
        print(('[ok] ' if good else '[MISMATCH] ') + msg)
        ok = ok and good
        good, msg = labrun_conformance(scratch)
        print(('[ok] ' if good else '[MISMATCH] ') + msg)
        ok = ok and good
        good, msg = labrun_growth(scratch)
        print(('[ok] ' if good else '[MISMATCH] ') + msg)
        ok = ok and good
    print(f'growth specifications {"agree with the code" if ok else "DISAGREE with the code"} ({time.time() - t0:.0f}s)')
    return 0 if ok else 1
