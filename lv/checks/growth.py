"""./check --growth: specifications beyond the listed properties, each bound to the code the same way
(TLC enumerates call sequences; the real class replays them; TLC judges the replies).

  FutureFSM       labtech.runners.process.Future
  SmallModels     labtech.utils.LoggerFileProxy, labtech.utils.OrderedSet, labtech.runners.process.ProcessMonitor
  LabRun (Grow)   task naming (G01) and progress bars (G02) of TaskCoordinator.run: model-checked through the
                  refinement mapping, then judged by the monitor on executions along TLC-generated schedules
"""
from __future__ import annotations

import json
import time

from lv import harness, tlc


def _one(scratch, module, gen_cfg, judge_cfg, rig, jobfn, keep):
    r = tlc.run_tlc(module, gen_cfg, scratch=scratch, workers=4, heap='2g', tag='gg', timeout=900)
    if r.error or r.violated:
        return False, f'{module}/{gen_cfg}: model failed: {r.error or r.violated}'
    seqs = [json.loads(p) for p in r.prints]
    obs = harness.run_jobs([jobfn(seqs)], scratch, module=rig, procs=1)
    f = scratch / f'obs_{gen_cfg}.ndjson'
    tlc.dump_ndjson(f, [{k: o[k] for k in keep} for o in obs])
    j = tlc.run_tlc(module, judge_cfg, scratch=scratch, workers=1, heap='2g', env={'LV_OBS': str(f)}, tag='gj', timeout=900)
    if j.error or j.violated:
        return False, f'{module}/{judge_cfg}: judge failed: {j.error or j.violated}'
    verdicts = [json.loads(p) for p in j.prints]
    bad = [v['id'] for v in verdicts if not v['ok']]
    first = next((o for o in obs if o['id'] in bad), None)
    return (not bad and len(verdicts) == len(obs)), (f'{module}/{gen_cfg}: {r.distinct} states, {len(obs)} call sequences replayed, '
                                                    f'{len(bad)} disagree' + (f'; first: {json.dumps(first)[:300]}' if first else ''))


def labrun_growth(scratch):
    """G01 / G02: the same flow as the LabRun-based property checks (model check, schedules, R2 executions, monitor)."""
    import random
    from lv import families
    from lv.families import UNL
    seed = harness.seed_from_env()
    cfgs = families.family(3, seed=seed, ntypes=2, maxpars=(1, UNL), maxws=(1, 2), backends=('fork', 'spawn', 'serial'),
                           cached='all-subsets', reqs='subsets', fails='singles', cofs=(True, False), sample=400)
    invs = ['A_G01_Names', 'A_G02_Bars', 'A_G02_Count', 'A_G02_Closed']
    mc = harness.model_check(cfgs, harness.labrun_cfg_text(invariants=invs, max_int=1, grow=True), scratch, tag='grow')
    if mc.error or mc.violated:
        return False, f'LabRun(Grow): model failed: {mc.error or mc.violated}\n{tlc.compact_cex(mc.cex)[:2000]}'
    scheds = harness.simulate_schedules(cfgs, scratch, num=800, seed=seed) + \
        harness.simulate_schedules(cfgs, scratch, num=300, seed=seed + 1, max_int=1)
    rnd = random.Random(seed)
    jobs = [{'id': f'G-s{k}', 'cfg': cfgs[ci], 'schedule': h, 'shape_seed': rnd.randrange(10 ** 6), 'progress': True}
            for k, (ci, h, _e) in enumerate(scheds)]
    # enough tasks of one type for the zero-padding to matter (10, 11 and 12 tasks: one and two digits)
    for k, (n, backend) in enumerate([(10, 'serial'), (11, 'fork'), (12, 'serial'), (12, 'spawn')]):
        deps = [[] for _ in range(n)]
        deps[n - 1] = [1, 2]
        wide = families.mk(n, deps, [1] * (n - 1) + [2], [UNL, UNL], [True, True], [], list(range(n, 0, -1)), backend, 3)
        jobs.append({'id': f'G-w{k}', 'cfg': wide, 'schedule': [], 'shape_seed': k, 'progress': True})
    traces = harness.run_jobs(jobs, scratch)
    val = harness.validate_parallel(traces, scratch, props='G01,G02')
    bad = {tid: v for tid, v in val['verdicts'].items() if v}
    named = sum(1 for t in traces for e in t['ev'] if e.get('pname'))
    bars = sum(1 for t in traces for e in t['ev'] if e['e'] == 'pb_new')
    first = next(iter(bad.items()), None)
    return (not bad and named > 0 and bars > 0), (
        f'LabRun(Grow): {len(cfgs)} configurations, {mc.distinct} states; {len(traces)} executions with {named} observed process '
        f'names and {bars} progress bars judged by the monitor, {len(bad)} disagree' + (f'; first: {first}' if first else ''))


def main() -> int:
    t0 = time.time()
    ok = True
    with harness.Scratch() as scratch:
        runs = [
            ('FutureFSM', 'FutureFSM_gen.cfg', 'FutureFSM_judge.cfg', 'lv.rigs.future',
             lambda seqs: {'id': 'fut', 'seqs': [[h[0] for h in s] for s in seqs]}, ('id', 'ops', 'replies')),
            ('SmallModels', 'SmallModels_proxy_gen.cfg', 'SmallModels_proxy_judge.cfg', 'lv.rigs.small',
             lambda seqs: {'id': 'proxy', 'which': 'proxy', 'seqs': seqs}, ('id', 'ops', 'delivered')),
            ('SmallModels', 'SmallModels_oset_gen.cfg', 'SmallModels_oset_judge.cfg', 'lv.rigs.small',
             lambda seqs: {'id': 'oset', 'which': 'oset', 'seqs': seqs}, ('id', 'ops', 'replies')),
            ('SmallModels', 'SmallModels_monitor_gen.cfg', 'SmallModels_monitor_judge.cfg', 'lv.rigs.small',
             lambda seqs: {'id': 'mon', 'which': 'monitor', 'seqs': seqs}, ('id', 'ops', 'replies')),
        ]
        for args in runs:
            good, msg = _one(scratch, *args)
            print(('[ok] ' if good else '[MISMATCH] ') + msg)
            ok = ok and good
        good, msg = labrun_growth(scratch)
        print(('[ok] ' if good else '[MISMATCH] ') + msg)
        ok = ok and good
    print(f'growth specifications {"agree with the code" if ok else "DISAGREE with the code"} ({time.time() - t0:.0f}s)')
    return 0 if ok else 1
