"""C20 (the task diagram shows every reachable type and relationship), decided by spec/TaskDiagram.tla.

1. TLC checks that the work-list traversal of TaskStructure.build (transcribed) ends, for every input of the
   bounded grammar, with exactly the property-level sets (reachable types; <<from, parameter, to, many>>), and
   emits the inputs.
2. The real build_task_diagram renders every input (twice in-process, and in fresh interpreters under other
   hash seeds); the text is parsed back into class blocks, member lines and arrows.
3. TaskDiagramObs (TLC) recomputes the expected sets from the input and evaluates C20_Classes / C20_Members /
   C20_Arrows / C20_Deterministic.
"""
from __future__ import annotations

import json
import time
from concurrent.futures import ThreadPoolExecutor

from lv import harness, tlc


def run(prop: str, tier: str) -> int:
    t0 = time.time()
    seed = harness.seed_from_env()
    rep = harness.Report(prop)
    with harness.Scratch() as scratch:
        mc = tlc.run_tlc('TaskDiagram', 'TaskDiagram_emit.cfg', scratch=scratch, workers=1, heap='6g', tag='td', timeout=3000)
        if mc.error or mc.violated:
            print(f'MACHINERY: TaskDiagram model failed: {mc.error or mc.violated}\n{mc.out[-2000:]}')
            return 2
        inputs = [json.loads(p) for p in mc.prints]
        hashseeds = [11] if tier == 'quick' else [11, 1, 77, 4242]
        nj = harness.NPROC
        jobs = [{'id': f'{prop}-d{i}', 'inputs': inputs[i::nj], 'hashseeds': hashseeds} for i in range(nj)]
        obs = harness.run_jobs(jobs, scratch, module='lv.rigs.diagram')
        verdicts = {}

        def judge(part):
            f = scratch / f'tdobs_{id(part)}.ndjson'
            keep = ('id', 'inp', 'classes', 'params', 'runs', 'arrows', 'unparsed', 'render_error', 'deterministic')
            tlc.dump_ndjson(f, [{k: o[k] for k in keep} for o in part])
            r = tlc.run_tlc('TaskDiagramObs', 'TaskDiagramObs.cfg', scratch=scratch, workers=1, heap='3g', env={'LV_OBS': str(f)},
                            tag='tdo', timeout=1800)
            if r.error or r.violated:
                raise tlc.TLCMachineryError(f'TaskDiagramObs failed: {r.error or r.violated}\n{r.out[-2000:]}')
            return [json.loads(p) for p in r.prints if '"fails"' in p]
        parts = [obs[i::8] for i in range(8)]
        with ThreadPoolExecutor(max_workers=8) as ex:
            for vs in ex.map(judge, [p for p in parts if p]):
                for v in vs:
                    verdicts[v['id']] = v['fails']
        nviol = 0
        for o in obs:
            fails = verdicts[o['id']]
            if fails:
                nviol += 1
                fid = f'{fails[0]}:{harness.hashlib.sha1(json.dumps(o["inp"]).encode()).hexdigest()[:10]}'
                rep.violation(fid, f'{fails}: classes={o["classes"]} arrows={json.dumps(o["arrows"])[:200]} expected rels={json.dumps(o["exp_rels"])[:200]}',
                              {'property': prop, 'kind': 'diagram-case', 'input': o['inp'], 'fails': fails, 'observation': o})
        cov = {
            'states': max(1, mc.distinct), 'transitions': max(1, mc.generated),
            'traces_validated_against_impl': len(obs),
            'samples': [{'input': obs[len(obs) // 2]['inp'], 'classes': obs[len(obs) // 2]['classes'], 'arrows': obs[len(obs) // 2]['arrows']}],
            'evaluations': len(obs),
            'distinct_nontrivial': len({json.dumps(o['inp']) for o in obs if o['exp_rels']}),
            'rule': 'inputs = the bounded grammar of spec/TaskDiagram.tla (3 task types, parameters holding scalars, single tasks and '
                    'collections nested to depth 2-3, lists of one or two tasks); non-trivial = at least one relationship expected; distinct by input',
            'exhaustive': True,
            'model': {'module': 'TaskDiagram', 'assumption_checked': 'P_TraversalMatches', 'inputs': len(inputs)},
            'hash_seeds_of_fresh_interpreters': hashseeds, 'violating_inputs': nviol,
        }
        rc = rep.finish()
        harness.write_evidence(prop, tier, seed, 'model_checking', cov, time.time() - t0, nviol, [
            'the rendered text is parsed with regular expressions for class / member / arrow lines; unparsed lines count as a violation',
            'TLC evaluates the traversal property as an ASSUME over the grammar: states/transitions are nominal'])
        return rc


def replay(payload, path, scratch):
    job = {'id': 'replay', 'inputs': [{'inp': payload['input'], 'types': [], 'rels': []}], 'hashseeds': [11]}
    obs = harness.run_jobs([job], scratch, module='lv.rigs.diagram', procs=1)
    print(json.dumps(obs[0], indent=1)[:3000])
    f = scratch / 'r.ndjson'
    keep = ('id', 'inp', 'classes', 'params', 'runs', 'arrows', 'unparsed', 'render_error', 'deterministic')
    tlc.dump_ndjson(f, [{k: obs[0][k] for k in keep}])
    r = tlc.run_tlc('TaskDiagramObs', 'TaskDiagramObs.cfg', scratch=scratch, workers=1, env={'LV_OBS': str(f)}, tag='tdo')
    fails = json.loads([p for p in r.prints if '"fails"' in p][0])['fails']
    if fails:
        print(f'VIOLATION property={payload["property"]} replay={path}\n  {fails}')
        return 1
    print('replay: holds')
    return 0
