"""Checks decided by spec/LabRunAbs.tla (property level) + spec/LabRun.tla (implementation level):
C01 C02 C03 C04 C05 C10 C11 C14 C17 (and the R2 part of C16 / C19).

Flow of one check (DESIGN 3.2):
  1. TLC explores LabRun over the property's configuration family and checks the property's
     Abs!Cxx formulas through the refinement mapping (does the *design* admit a bad state?).
  2. TLC -simulate produces behaviours of LabRun; their environment decisions are the schedules.
  3. The real code is driven along every schedule (R2: real coordinator / runner / executor /
     futures on virtual processes; serial backend directly; R3: real processes, see real.py).
  4. Every recorded execution is judged by the property-level monitor (LabRunAbsTrace.tla).
"""
from __future__ import annotations

import json
import random
import time
from pathlib import Path

from lv import families, harness, monitor, tlc
from lv.families import UNL

def with_prior_abort(job, rnd):
    # fail-fast configurations on a process backend: half of the runs follow an earlier call on the same Lab and the same
    # task instances that was aborted by a (context-driven) task failure while other tasks were still queued or running
    c = job['cfg']
    if not c['cof'] and c['backend'] != 'serial' and rnd.random() < 0.5:
        job['prior_abort'] = rnd.randrange(1, c['n'] + 1)


def with_prior_call_or_abort(job, rnd):
    with_prior_abort(job, rnd)
    if 'prior_abort' not in job:
        with_prior_call(job, rnd)


def with_nulls(job, rnd):
    # C01: a fifth of the runs have tasks whose run() returns None (a legitimate result)
    if rnd.random() < 0.2:
        n = job['cfg']['n']
        job['cfg'] = dict(job['cfg'], nulls=sorted(rnd.sample(range(1, n + 1), rnd.randrange(1, n + 1))))
    with_prior_call(job, rnd)


def with_prior_call(job, rnd):
    # a quarter of the runs are preceded by another run_tasks call on the same task instances (shape seeds that are
    # multiples of 3 never build fresh equal instances, so the instances really are shared)
    if rnd.random() < 0.25:
        n = job['cfg']['n']
        job['prior'] = sorted(rnd.sample(range(1, n + 1), rnd.randrange(1, n + 1)))
        job['shape_seed'] = job['shape_seed'] - job['shape_seed'] % 3


def with_prior_success(job, rnd):
    # C10: a quarter of the runs follow an earlier call on the same task instances in which *everything succeeded* (the
    # tasks that fail in the observed call do so because the Lab's context tells them to): nothing of that earlier success
    # may stand in for a result that failed this time
    if job['cfg']['fail'] and rnd.random() < 0.3:
        n = job['cfg']['n']
        job['prior'] = list(range(1, n + 1))
        job['ctx_fail'] = True
        job['shape_seed'] = job['shape_seed'] - job['shape_seed'] % 3


def with_displays(job, rnd):
    # C11: "default and disabled progress/monitor displays" -- a third of the real runs keep tqdm and the task monitor on
    job['displays'] = rnd.random() < 0.34


I_INVS = ['I_Pdeps', 'I_Pdependents', 'I_Future', 'I_RunningCap']

SPECS = {
    'C01': dict(
        jobfn=with_nulls, wide_displays=True,
        invs=['A_C01_Returns', 'A_C01_Keys', 'A_C01_Values', 'A_C01_Digest'], props=[],
        fam=dict(quick=dict(n=3, ntypes=1, maxpars=(UNL,), maxws=(1, 2), backends=('fork', 'spawn', 'serial'),
                            cached='all-subsets', reqs='rich', busts=(False, True), sample=6500),
                 thorough=dict(n=3, ntypes=2, maxpars=(1, UNL), maxws=(1, 2, 3), backends=('fork', 'spawn', 'serial'),
                               cached='all-subsets', reqs='rich', busts=(False, True))),
        title='returned dict = requested tasks in order, each with its own reference value'),
    'C02': dict(
        jobfn=with_prior_call_or_abort,
        invs=['A_C02_RealResult'], props=['A_C02_SubmitAfterDeps', 'A_C02_RunAfterDeps', 'A_C02_StartAfterSubmit'],
        fam=dict(quick=[dict(n=3, ntypes=1, maxpars=(UNL,), maxws=(1, 2), backends=('fork', 'spawn', 'serial'),
                             cached='none', reqs='subsets', fails='singles', cofs=(True, False), tcache_opts=[(True,), (False,)]),
                        dict(n=3, ntypes=1, maxpars=(UNL,), maxws=(2,), backends=('fork', 'serial'), cached='all-subsets',
                             reqs='roots', badloads='singles', nonempty_deps=True),
                        dict(n=3, ntypes=1, maxpars=(UNL,), maxws=(2,), backends=('fork', 'serial'), cached='all-subsets',
                             reqs='roots', busts=(True,), nonempty_deps=True)],
                 thorough=dict(n=3, ntypes=2, maxpars=(1, UNL), maxws=(1, 2, 3), backends=('fork', 'spawn', 'serial'),
                               cached='all-subsets', reqs='subsets', fails='all-subsets', badloads='singles', busts=(False, True),
                               sample=60000)),
        title='no run() before every dependency finished; reads give the real result or raise'),
    'C03': dict(
        invs=['A_C03_OnlyNeeded', 'A_C03_AtMostOnce', 'A_C03_LoadIffCached'], props=['A_C03_OutcomeStable'],
        fam=dict(quick=dict(n=3, ntypes=1, maxpars=(UNL,), maxws=(2,), backends=('fork', 'serial'),
                            cached='all-subsets', reqs='rich', busts=(False, True), tcache_opts=[(True,), (False,)]),
                 thorough=dict(n=4, ntypes=2, maxpars=(UNL,), maxws=(2,), backends=('fork', 'spawn', 'serial'),
                               cached='all-subsets', reqs='subsets', busts=(False, True), sample=14000,
                               tcache_opts=[(True, True), (False, True), (False, False)])),
        title='at most one execution/load per distinct task, only inside the needed closure, load iff cached'),
    'C04': dict(
        jobfn=with_prior_abort,
        invs=['A_C04_Workers', 'A_C04_Type'], props=[], wide=True,
        fam=dict(quick=[dict(n=3, ntypes=2, maxpars=(1, 2, UNL), maxws=(1, 2, 3), backends=('fork', 'serial'),
                             cached='none', reqs='roots', fails='singles', cofs=(True, False), sample=2500),
                        dict(n=4, ntypes=1, maxpars=(2,), maxws=(3, 4), backends=('fork',), cached='none',
                             reqs='roots', max_edges=1, must=True, tcache_opts=[(True,), (False,)]),
                        dict(n=3, ntypes=1, maxpars=(1, 2), maxws=(3,), backends=('fork',), cached='all-subsets', busts=(True,),
                             reqs='roots', max_edges=1, sample=40, must=True),
                        # fail-fast runs over independent tasks of a limited and an unlimited type, more of them than workers
                        # (they follow an earlier aborted call on the same Lab: with_prior_abort)
                        dict(n=5, ntypes=2, maxpars=(UNL, 1), maxws=(2,), backends=('fork', 'spawn'), cached='none', reqs='subsets',
                             cofs=(False,), max_edges=0, sample=160, must=True),
                        # four independent tasks on two workers, the limited type last: an earlier aborted call on the same Lab
                        # leaves a queued future of the limited type behind if anything keeps the executor
                        dict(n=4, ntypes=2, maxpars=(UNL, 1), maxws=(2,), backends=('fork', 'spawn'), cached='none', reqs='roots',
                             cofs=(False,), max_edges=0, must=True),
                        # limited types whose tasks occur only as dependencies of the requested ones
                        dict(n=3, ntypes=2, maxpars=(1, 2), maxws=(3,), backends=('fork',), cached='none', reqs='roots',
                             nonempty_deps=True, sample=60, must=True)],
                 thorough=[dict(n=4, ntypes=2, maxpars=(1, 2, 3, UNL), maxws=(1, 2, 3, 16), backends=('fork', 'spawn'),
                                cached='none', reqs='roots', fails='singles', sample=9000, tcache_opts=[(True, True), (False, True)]),
                           dict(n=4, ntypes=1, maxpars=(1, 2), maxws=(3, 4), backends=('fork',), cached='all-subsets',
                                busts=(True, False), reqs='roots', max_edges=2, sample=1500, must=True),
                           dict(n=4, ntypes=2, maxpars=(2, 3), maxws=(3, 4, 16), backends=('fork', 'spawn'), cached='none',
                                reqs='roots', max_edges=2, must=True)]),
        title='|slot| <= max_workers and per-type count <= max_parallel in every state'),
    'C05': dict(
        jobfn=with_prior_abort,
        invs=['A_C05_AtRest'], props=[], wide=True,
        fam=dict(quick=[dict(n=3, ntypes=2, maxpars=(1, 2, UNL), maxws=(1, 2, 3), backends=('fork', 'serial'),
                             cached='none', reqs='roots', fails='singles', cofs=(True, False), sample=2000),
                        dict(n=3, ntypes=1, maxpars=(UNL,), maxws=(2, 3), backends=('fork',), cached='all-subsets',
                             reqs='subsets', sample=700),
                        dict(n=4, ntypes=1, maxpars=(2,), maxws=(3, 4), backends=('fork',), cached='none',
                             reqs='roots', max_edges=1, must=True)],
                 thorough=[dict(n=4, ntypes=2, maxpars=(1, 2, 3, UNL), maxws=(1, 2, 3, 16), backends=('fork', 'spawn'),
                                cached='all-subsets', reqs='roots', fails='singles', sample=15000),
                           dict(n=4, ntypes=2, maxpars=(2, 3), maxws=(3, 4, 16), backends=('fork', 'spawn'), cached='none',
                                reqs='roots', max_edges=2, must=True)]),
        title='at every resting point executing = min(max_workers, runnable allowed by the type limits)'),
    'C10': dict(
        jobfn=with_prior_success, real_jobfn=with_displays,
        invs=['A_C10_OnlyOwnFailures', 'A_C10_Continue', 'A_C10_NoValueForFailed', 'A_C10_CachedOk',
              'A_C10_FailFast'], props=[],
        fam=dict(quick=dict(n=3, ntypes=2, maxpars=(1, UNL), maxws=(1, 2), backends=('fork', 'spawn', 'serial'),
                            cached='none', reqs='subsets', fails='all-subsets', cofs=(True, False), sample=3500),
                 thorough=dict(n=3, ntypes=2, maxpars=(1, UNL), maxws=(1, 2, 3), backends=('fork', 'spawn', 'serial'),
                               cached='all-subsets', reqs='subsets', fails='all-subsets', cofs=(True, False),
                               sample=40000)),
        title='failures (exceptions, deaths) stay confined to the failing task and its dependents'),
    'C11': dict(
        invs=['A_C11_NoIdleWait'], props=[], int_sims=dict(quick=500, thorough=6000), real_jobfn=with_displays,
        fam=dict(quick=dict(n=3, ntypes=2, maxpars=(1, UNL), maxws=(1, 2), backends=('fork', 'serial'),
                            cached='none', reqs='roots', fails='singles', cofs=(True, False)),
                 thorough=dict(n=3, ntypes=2, maxpars=(1, 2, UNL), maxws=(1, 2, 3), backends=('fork', 'spawn', 'serial'),
                               cached='all-subsets', reqs='subsets', fails='all-subsets', cofs=(True, False),
                               sample=40000)),
        live=dict(quick=dict(n=2, ntypes=2, maxpars=(1, UNL), maxws=(1, 2), backends=('fork', 'serial'),
                             cached='all-subsets', reqs='subsets', fails='singles', cofs=(True, False)),
                  thorough=dict(n=3, ntypes=1, maxpars=(1,), maxws=(1, 2), backends=('fork',),
                                cached='none', reqs='roots', fails='singles', cofs=(True, False))),
        title='never at rest with nothing in flight; termination under fairness; no spinning'),
    'C17': dict(
        invs=['A_C17_Retained', 'A_C17_Prompt', 'A_C17_Captured', 'A_C17_EmptyAtReturn'], props=['A_C17_OnlyNew'],
        fam=dict(quick=[dict(n=3, ntypes=1, maxpars=(UNL,), maxws=(1, 2), backends=('fork', 'spawn', 'serial'),
                             cached='none', reqs='subsets', fails='singles', cofs=(True,)),
                        dict(n=3, ntypes=1, maxpars=(UNL,), maxws=(1, 2), backends=('fork', 'serial'),
                             cached='all-subsets', reqs='rich', cofs=(True,), busts=(False, True), sample=800)],
                 thorough=dict(n=3, ntypes=1, maxpars=(UNL,), maxws=(1, 2, 3), backends=('fork', 'spawn', 'serial'),
                               cached='all-subsets', reqs='subsets', fails='all-subsets', cofs=(True,), sample=40000)),
        title='results held exactly while a direct dependent still needs them; nothing held at return'),
}

LOG_BEH = ['L1', 'P1', 'L2 P1', 'P1 F', 'P1 F P1', 'E1', 'W1 P2', 'P2 F F', '', 'L450', 'P1 L450 E1', 'Q1', 'P1 Q1', 'U1',
           'L1 Q2 F Q1', 'S1', 'V1 P1', 'S2 L1']


def beh_logs(job, rnd):
    job['beh'] = {str(t): rnd.choice(LOG_BEH) for t in range(1, job['cfg']['n'] + 1)}


def empty_ctx_or_rebind(job, rnd):
    empty_ctx(job, rnd)
    if job['cfg']['backend'] != 'serial' and not job['cfg']['cached0'] and rnd.random() < 0.3:
        job['prior_rebind'] = True


def empty_ctx(job, rnd):
    # a per-parameter subset filter may select nothing at all: half of the runs make the type-2 tasks' filters return {}
    if rnd.random() < 0.5:
        job['empty_ctx'] = [t for t in range(1, job['cfg']['n'] + 1) if job['cfg']['typ'][t - 1] == 2]


def ctx_pair(job, rnd):
    empty_ctx(job, rnd)
    job['ctx_pair'] = True
    job['actions'] = [a for a in job['actions'] if a[0] == 'rel']    # the two runs are compared entry by entry


SPECS['C14'] = dict(
    invs=['A_C14_ExitClass', 'A_C14_RunningFinish', 'A_C14_RunningCached', 'A_C14_CacheConsistent'],
    props=['A_C14_NoStartAfterInterrupt'], max_int=2,
    fam=dict(quick=dict(n=3, ntypes=1, maxpars=(UNL,), maxws=(1, 2), backends=('fork', 'spawn', 'serial'),
                        cached='none', reqs='roots', fails='singles', cofs=(True,)),
             thorough=dict(n=3, ntypes=2, maxpars=(1, UNL), maxws=(1, 2, 3), backends=('fork', 'spawn', 'serial'),
                           cached='all-subsets', reqs='subsets', fails='singles', cofs=(True,), sample=6000)),
    sweeps=dict(quick=dict(serial_cfgs=4, virt_cfgs=8, virt_lines=120, double_cfgs=4, double_lines=60),
                thorough=dict(serial_cfgs=60, virt_cfgs=120, virt_lines=400, double_cfgs=40, double_lines=200)),
    title='interrupt at every coordinator location of the model and every line boundary of the code')
SPECS['C16'] = dict(
    invs=['A_C04_Workers'], props=[], jobfn=empty_ctx_or_rebind, real_jobfn=ctx_pair, real_scale=2,
    fam=dict(quick=dict(n=3, ntypes=3, maxpars=(UNL,), maxws=(1, 2, 16), backends=('fork', 'spawn', 'serial'),
                        cached='none', reqs='roots', sample=600),
             thorough=dict(n=4, ntypes=3, maxpars=(UNL, 2), maxws=(1, 2, 4, 16), backends=('fork', 'spawn', 'serial'),
                           cached='all-subsets', reqs='roots', sample=6000)),
    title='process / thread / memory facts and the filtered context observed inside run()')
SPECS['C19'] = dict(
    invs=['A_C19_ExactlyOnce', 'A_C19_DeliveredBeforeRaise', 'A_C19_NeverTwice'], props=[], logs=True, jobfn=beh_logs, real_jobfn=beh_logs,
    fam=dict(quick=dict(n=3, ntypes=1, maxpars=(UNL,), maxws=(1, 2), backends=('fork', 'spawn', 'serial'),
                        cached='none', reqs='roots', fails='singles', cofs=(True, False)),
             thorough=dict(n=3, ntypes=1, maxpars=(UNL, 1), maxws=(1, 2, 3), backends=('fork', 'spawn', 'serial'),
                           cached='all-subsets', reqs='subsets', fails='singles', cofs=(True, False), sample=12000)),
    title='every record / stdout / stderr line of every task delivered exactly once before return')

SIM = {'quick': dict(num=3000, cfg_sample=300, real=64), 'thorough': dict(num=60000, cfg_sample=3000, real=800)}


def build_family(prop: str, tier: str, seed: int, key: str = 'fam') -> list:
    fs = SPECS[prop][key][tier]
    out = []
    for f in (fs if isinstance(fs, list) else [fs]):
        f = dict(f)
        n = f.pop('n')
        must = f.pop('must', False)
        got = families.family(n, seed=seed, **f)
        if must:
            got = [dict(c, must=True) for c in got]
        out += got
    return out


def make_jobs(prop, cfgs, scheds, seed, extra_defaults=0):
    rnd = random.Random(seed)
    jobs = []
    for k, (ci, hist, _exit) in enumerate(scheds):
        jobs.append({'id': f'{prop}-s{k}', 'cfg': cfgs[ci], 'schedule': hist, 'shape_seed': rnd.randrange(10 ** 6)})
    # every configuration of a sample also runs under the rig's default schedule (everything finishes
    # as soon as it is observed), so that each one is driven at least once
    idx = list(range(len(cfgs)))
    rnd.shuffle(idx)
    for k, ci in enumerate(idx[:extra_defaults]):
        jobs.append({'id': f'{prop}-d{k}', 'cfg': cfgs[ci], 'schedule': [], 'shape_seed': rnd.randrange(10 ** 6)})
    return jobs


def make_sweeps(prop, cfgs, scheds, seed, sw):
    """Line-boundary interrupt injection jobs (expanded by the worker): serial exhaustively, process
    backends (on virtual processes) sampled, plus double interrupts."""
    rnd = random.Random(seed + 3)
    ser = [c for c in cfgs if c['backend'] == 'serial' and any(c['deps'])]
    prc = [(ci, h) for ci, h, _ in scheds if cfgs[ci]['backend'] != 'serial' and any(cfgs[ci]['deps'])
           and not any(e[0] == 'int' for e in h)]
    rnd.shuffle(ser)
    rnd.shuffle(prc)
    jobs = []
    for k, c in enumerate(ser[:sw['serial_cfgs']]):
        jobs.append({'id': f'{prop}-ls{k}', 'cfg': c, 'schedule': [], 'shape_seed': rnd.randrange(10 ** 6), 'sweep': 'all',
                     'local_storage': k % 2 == 0})
    for k, (ci, h) in enumerate(prc[:sw['virt_cfgs']]):
        jobs.append({'id': f'{prop}-lv{k}', 'cfg': cfgs[ci], 'schedule': h, 'shape_seed': rnd.randrange(10 ** 6),
                     'sweep': sw['virt_lines'], 'seed': seed + k})
    for k, (ci, h) in enumerate(prc[sw['virt_cfgs']:sw['virt_cfgs'] + sw['double_cfgs']]):
        jobs.append({'id': f'{prop}-ld{k}', 'cfg': cfgs[ci], 'schedule': h, 'shape_seed': rnd.randrange(10 ** 6),
                     'sweep': sw['double_lines'], 'seed': seed + k, 'double': True})
    return jobs


def make_real_jobs(prop, cfgs, scheds, seed, count, spec):
    from lv.rigs import real
    rnd = random.Random(seed + 99)
    pick = list(range(len(scheds)))
    rnd.shuffle(pick)
    jobs = []
    for k in pick:
        ci, hist, _exit = scheds[k]
        acts = real.hist_to_actions(hist)
        if len(jobs) >= count:
            break
        jobs.append({'id': f'{prop}-r{len(jobs)}', 'cfg': cfgs[ci], 'actions': acts, 'shape_seed': rnd.randrange(10 ** 6)})
    return jobs


def run(prop: str, tier: str) -> int:
    t0 = time.time()
    seed = harness.seed_from_env()
    spec = SPECS[prop]
    rep = harness.Report(prop)
    with harness.Scratch() as scratch:
        cfgs = build_family(prop, tier, seed)
        # 1. model checking through the refinement mapping
        text = harness.labrun_cfg_text(invariants=spec['invs'] + I_INVS, properties=spec['props'],
                                       max_int=spec.get('max_int', 0), logs=spec.get('logs', False))
        mc = harness.model_check(cfgs, text, scratch, tag=prop, timeout=3000 if tier == 'quick' else 7200)
        if mc.error:
            print(f'MACHINERY: TLC failed on LabRun: {mc.error[:2000]}')
            return 2
        if mc.violated:
            print(f'MACHINERY: the implementation-level model violates {mc.violated}; the model of the design is '
                  f'wrong or the design is (see DESIGN 4.1):\n{tlc.compact_cex(mc.cex)[:4000]}')
            return 2
        live = None
        if 'live' in spec:
            lcfgs = build_family(prop, tier, seed, 'live')
            ltext = harness.labrun_cfg_text(invariants=[], properties=['C11_Termination'], spec='FairSpec')
            live = harness.model_check(lcfgs, ltext, scratch, tag=prop + 'live', timeout=1500)
            if live.error or live.violated:
                print(f'MACHINERY: liveness run failed: {live.error or live.violated}\n{tlc.compact_cex(live.cex)[:3000]}')
                return 2
        tp = {'model_check': round(time.time() - t0, 1)}
        t1 = time.time()
        # 2. schedules out of TLC
        sim = SIM[tier]
        rnd = random.Random(seed + 17)
        sample = cfgs if len(cfgs) <= sim['cfg_sample'] else rnd.sample(cfgs, sim['cfg_sample'])
        sample = sample + [c for c in cfgs if c.get('must') and c not in sample]
        scheds = harness.simulate_schedules(sample, scratch, num=sim['num'], seed=seed,
                                            max_int=spec.get('max_int', 0))
        jobs = make_jobs(prop, sample, scheds, seed, extra_defaults=len(sample))
        if spec.get('int_sims'):
            # the same configurations under one interrupt (placed by TLC): the run must still end
            ischeds = harness.simulate_schedules(sample, scratch, num=spec['int_sims'][tier], seed=seed + 1, max_int=1)
            ijobs = make_jobs(prop, sample, ischeds, seed + 1)
            for j in ijobs:
                j['id'] = j['id'].replace('-s', '-i')
            jobs += ijobs
        if prop == 'C01':
            # the boundary: nothing is requested
            for k, backend in enumerate(('serial', 'fork', 'spawn')):
                jobs.append({'id': f'{prop}-e{k}', 'cfg': dict(sample[0], req=[], cached0=[], fail=[], badload=[], backend=backend),
                             'schedule': [], 'shape_seed': k})
        jrnd = random.Random(seed + 5)
        if spec.get('jobfn'):
            for j in jobs:
                spec['jobfn'](j, jrnd)
        if spec.get('sweeps'):
            # line-boundary injection starts from interrupt-free behaviours (the TLC-placed interrupts are in `scheds`)
            base_scheds = harness.simulate_schedules(sample, scratch, num=max(200, sim['num'] // 10), seed=seed + 2, max_int=0)
            jobs += make_sweeps(prop, sample, base_scheds, seed, spec['sweeps'][tier])
        tp['simulate'] = round(time.time() - t1, 1)
        t1 = time.time()
        # 3. drive the code: R2 / serial in-process, and a sample on real processes (R3)
        traces = harness.run_jobs(jobs, scratch)
        tp['r2'] = round(time.time() - t1, 1)
        t1 = time.time()
        rjobs = make_real_jobs(prop, sample, scheds, seed, sim['real'] * spec.get('real_scale', 1), spec)
        if spec.get('wide') or spec.get('wide_displays'):
            # max_workers=None means the CPU count: more independent tasks than CPUs, real processes, default worker count
            import os
            ncpu = os.cpu_count() or 4
            nw = ncpu + 4
            for k, backend in enumerate(('fork', 'spawn')[:1 if tier == 'quick' else 2]):
                wide = families.mk(nw, [[] for _ in range(nw)], [1] * nw, [UNL], [True], [], list(range(1, nw + 1)), backend, ncpu)
                rjobs.append({'id': f'{prop}-w{k}', 'cfg': wide, 'actions': [], 'shape_seed': 0, 'maxw_none': True,
                              'displays': bool(spec.get('wide_displays')),       # run_tasks' default display options
                              'rest_samples': 3 if spec.get('wide_displays') else 1})  # (the displays refresh between polls)
                if spec.get('wide_displays'):
                    # the documented display options, other than their defaults
                    rjobs.append({'id': f'{prop}-wo{k}', 'cfg': wide, 'actions': [], 'shape_seed': 0, 'maxw_none': True, 'displays': True,
                                  'rest_samples': 3,
                                  'top_options': {'top_n': 2, 'top_sort': '-cpu', 'top_format': '$name $pid $status $children $threads $vms'}})
        if spec.get('real_jobfn'):
            for j in rjobs:
                spec['real_jobfn'](j, jrnd)
        from lv.rigs import real
        rtraces = real.run_real_jobs(rjobs, scratch, procs=min(harness.NPROC, 12), hashseeds=[0, 1, 2, 3])
        jobs = jobs + rjobs
        traces = traces + rtraces
        tp['r3'] = round(time.time() - t1, 1)
        # 4. judge
        val = harness.validate_parallel(traces, scratch, props=prop)
        # A violation seen on real processes must be reproducible: R3 runs are steered at resting points, so a defect of
        # the code shows again when the same job is re-run, whereas a signal lost below labtech (e.g. a KeyboardInterrupt
        # raised inside a finalizer of the interpreter, observed about once in 250 interrupted runs) does not.
        unreproduced = []
        flagged = [j for j, t in zip(rjobs, rtraces)
                   if any(harness.prop_of(c) == prop for c, _ in val['verdicts'][t['tid']])]
        if flagged:
            again = []
            for rep_no in (1, 2):
                rj = [dict(j, id=f'{j["id"]}~{rep_no}') for j in flagged]
                rt = real.run_real_jobs(rj, scratch, procs=min(harness.NPROC, 12), hashseeds=[0, 1, 2, 3])
                rv = harness.validate_parallel(rt, scratch, props=prop)
                again.append({j['id'].split('~')[0] for j, t in zip(rj, rt)
                              if any(harness.prop_of(c) == prop for c, _ in rv['verdicts'][t['tid']])})
            for j in flagged:
                if j['id'] not in again[0] and j['id'] not in again[1]:
                    unreproduced.append(j['id'])
        # executions in which the interpreter itself lost an interrupt (a KeyboardInterrupt reported through
        # sys.unraisablehook: raised inside a finalizer, it never reached labtech) or crashed are inconclusive
        inconclusive = [t['tid'] for t in rtraces
                        if t['meta'].get('crashed') or any(u[0] == 'KeyboardInterrupt' for u in t['meta'].get('unraisable', []))]
        unreproduced += [x for x in inconclusive if x not in unreproduced]
        nviol = 0
        by_id = {j['id']: j for j in jobs}
        for t in traces:
            if 'job' in t:
                by_id[t['tid']] = t['job']       # expanded sweep jobs
        drift = sum(1 for t in traces if t['meta'].get('skipped') or t['meta'].get('unused_actions'))
        for t in traces:
            fails = [(c, p) for c, p in val['verdicts'][t['tid']] if harness.prop_of(c) == prop]
            if fails and t['tid'] in unreproduced:
                continue
            if fails:
                nviol += 1
                job = by_id[t['tid']]
                c0, p0 = fails[0]
                fid = f'{c0}:{harness.hashlib.sha1(json.dumps([job["cfg"], job.get("schedule", job.get("actions"))], sort_keys=True).encode()).hexdigest()[:10]}'
                rep.violation(fid, f'{c0} false after event {p0} of {t["tid"]} '
                                   f'(backend={job["cfg"]["backend"]}, deps={job["cfg"]["deps"]}, req={job["cfg"]["req"]}, '
                                   f'fail={job["cfg"]["fail"]}, cached0={job["cfg"]["cached0"]})',
                              {'property': prop, 'kind': 'labrun-trace', 'job': job, 'fails': fails,
                               'module': 'real' if 'actions' in job else 'lv.rigs.worker_main',
                               'events': t['ev']})
        distinct = len({(families.cfg_key(j['cfg']), json.dumps(j.get('schedule', j.get('actions')))) for j in jobs
                        if families.nontrivial(j['cfg'])})
        cov = {
            'states': mc.distinct + (live.distinct if live else 0),
            'transitions': mc.generated + (live.generated if live else 0),
            'traces_validated_against_impl': len(traces),
            'samples': [{'cfg': jobs[0]['cfg'], 'schedule': jobs[0].get('schedule')},
                        {'events': traces[0]['ev'][:12]}],
            'evaluations': len(jobs),
            'distinct_nontrivial': distinct,
            'rule': 'jobs = (configuration, TLC-generated schedule) pairs + one default-schedule run per sampled '
                    'configuration; non-trivial = configuration has a dependency edge, a failing task or a warm cache; '
                    'distinct by (configuration, schedule)',
            'exhaustive': False,
            'model': {'module': 'LabRun', 'configurations': len(cfgs), 'distinct_states': mc.distinct,
                      'states_generated': mc.generated, 'depth': mc.depth, 'invariants': spec['invs'],
                      'action_properties': spec['props'], 'exhaustive_over_family': True, 'wall_s': round(mc.wall_s, 1)},
            'liveness': ({'configurations': len(lcfgs), 'distinct_states': live.distinct, 'wall_s': round(live.wall_s, 1)}
                         if live else None),
            'schedules_from_tlc': len(scheds),
            'executions': {'R2_virtual_processes_or_serial': len(traces) - len(rtraces), 'R3_real_processes': len(rtraces)},
            'monitor': {'states': val['states'], 'wall_s': round(val['wall_s'], 1)},
            'drift': {'traces_with_inapplicable_schedule_entries': drift},
            'violating_traces': nviol,
            'r3_violations_not_reproduced_in_two_reruns': unreproduced,
            'r3_inconclusive_interpreter_lost_interrupt_or_crashed': inconclusive,
            'phase_wall_s': tp,
        }
        rc = rep.finish()
        harness.write_evidence(prop, tier, seed, 'model_checking', cov, time.time() - t0, nviol, [
            'R2 executes worker thunks at process start on virtual processes; real-process behaviour is covered by the R3 part',
            'TLC bounded model: tasks <= family bound; the monitor trusts the hook placement documented in DESIGN 5.1'])
        return rc
