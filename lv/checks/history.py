"""C06 (a cache hit returns the result and metadata stored for that very task) and C08 (cache contents
evolve exactly as run / bust_cache / uncache dictate), decided by spec/CacheHistory.tla.

1. TLC enumerates every history of Run / Uncache calls up to the bound over small task universes and checks
   the map model's own sanity invariants.
2. TLC -simulate samples histories; each is replayed on real Labs (storage providers x cache formats x
   backends; second and later calls optionally in a freshly started interpreter under another hash seed),
   logging after every call what it returned and everything observable (is_cached of every task,
   cached_tasks per type, a direct load of every entry, the number of keys in the storage).
3. CacheHistoryTrace (TLC) recomputes every call on the map model and evaluates the C06_... / C08_... /
   C09_Listing formulas against the observation.
"""
from __future__ import annotations

import json
import random
import time
from concurrent.futures import ThreadPoolExecutor
from pathlib import Path

from lv import families, harness, tlc

UNL = families.UNL


def universes():
    mk = families.mk
    us = [
        # chain + shared dependency, a cache=None type
        dict(mk(3, [[], [1], [1, 2]], [1, 1, 2], [UNL, UNL], [True, False], [], [], 'serial', 2), tfmt=['pickle', 'pickle']),
        # diamond; second type uses another cache format sharing the storage
        dict(mk(4, [[], [1], [1], [2, 3]], [1, 2, 2, 1], [UNL, UNL], [True, True], [], [], 'serial', 2), tfmt=['pickle', 'json']),
        # independent + chain, three types (pickle, json, none)
        dict(mk(4, [[], [], [2], [1, 3]], [1, 2, 3, 1], [UNL, UNL, UNL], [True, True, False], [], [], 'serial', 2),
             tfmt=['pickle', 'json', 'pickle']),
    ]
    # "twins": five independent tasks of one type told apart only by the value / the type of one parameter
    # a chain of tasks whose type is defined in the program's main module (as in a user's script)
    us.append(dict(mk(2, [[], [1]], [1, 1], [UNL], [True], [], [], 'serial', 2), tfmt=['pickle'], mainmod=True))
    us = [dict(u, twins=False) for u in us]
    us.append(dict(mk(6, [[], [], [], [], [], []], [1, 1, 1, 1, 1, 1], [UNL], [True], [], [], 'serial', 2), tfmt=['pickle'], twins=True))
    # two cacheable types of the same cache kind, the name of one being a prefix of the other's (T1pNc1 / T1pNc1__x_: also a double underscore and a trailing underscore)
    us.append(dict(mk(3, [[], [1], []], [1, 2, 2], [UNL, UNL], [True, True], [], [], 'serial', 2), tfmt=['pickle', 'pickle'],
                   twins=False, prefixnames=True))
    return us


TWINS_UI = 5      # 1-based index of the twins universe in universes()

TIERS = {
    'quick': dict(gen='CacheHistory_gen3.cfg', sims=[('CacheHistory_sim3.cfg', 700, 3), ('CacheHistory_sim2.cfg', 120, 2)],
                  providers=('local', 'fsspec'), none_jobs=20, fork_prob=0.25, spawn_prob=0.04, newproc_prob=0.35),
    'thorough': dict(gen='CacheHistory_gen4.cfg', sims=[('CacheHistory_sim4.cfg', 2500, 4), ('CacheHistory_sim3.cfg', 1500, 3)],
                     providers=('local', 'fsspec'), none_jobs=200, fork_prob=0.3, spawn_prob=0.08, newproc_prob=0.4),
}


def sample_histories(cfgname, num, depth, us_file, scratch, seed, parts=4):
    per = max(1, num // parts)

    def one(i):
        return tlc.run_tlc('CacheHistory', cfgname, scratch=scratch, workers=1, heap='2g', env={'LV_UNIVERSES': str(us_file)},
                           simulate=f'num={per}', depth=depth + 1, seed=seed * 100 + i + 1, tag=f'hs{i}', timeout=900)
    seen, out = set(), []
    with ThreadPoolExecutor(max_workers=parts) as ex:
        for r in ex.map(one, range(parts)):
            if r.error:
                raise tlc.TLCMachineryError(f'history simulation failed: {r.error}')
            for p in r.prints:
                if p not in seen:
                    seen.add(p)
                    d = json.loads(p)
                    if d['ui'] == TWINS_UI:
                        # 1, 1.0 and True are equal in Python: one call must not request two of them -- a call of the sampled
                        # history asks for the first task of its request only (the trace is judged on the calls as made)
                        for h in d['hist']:
                            if h['op'] == 'run' and len(h['req']) > 1:
                                h['req'] = h['req'][:1]
                    out.append((d['ui'] - 1, d['hist']))
    out.sort(key=lambda x: json.dumps(x))
    random.Random(seed).shuffle(out)
    # stratified by universe: the simulation visits the universes very unevenly (the twins universe made 2 % of the
    # sampled histories), so the sample takes them in turn
    by_u: dict = {}
    for x in out:
        by_u.setdefault(x[0], []).append(x)
    picked, k = [], 0
    while len(picked) < num and any(by_u.values()):
        for ui in sorted(by_u):
            if by_u[ui] and len(picked) < num:
                picked.append(by_u[ui].pop())
        k += 1
    return picked


def validate(traces, scratch, par=harness.NPROC):
    batch = max(20, -(-len(traces) // par))
    batches = [traces[i:i + batch] for i in range(0, len(traces), batch)]
    verdicts, states = {}, 0

    def one(b):
        f = scratch / f'ht_{id(b)}.ndjson'
        tlc.dump_ndjson(f, [{'tid': t['tid'], 'u': t['u'], 'ops': t['ops']} for t in b])
        r = tlc.run_tlc('CacheHistoryTrace', 'CacheHistoryTrace.cfg', scratch=scratch, workers=1, heap='2g',
                        env={'LV_TRACES': str(f), 'LV_UNIVERSES': str(f)}, tag='ht', timeout=1800)
        if r.error or r.violated:
            raise tlc.TLCMachineryError(f'CacheHistoryTrace failed: {r.error or r.violated}\n{r.out[-2500:]}')
        return r
    with ThreadPoolExecutor(max_workers=min(par, len(batches))) as ex:
        for r in ex.map(one, batches):
            states += r.distinct
            for p in r.prints:
                d = json.loads(p)
                if d['reached'] != d['n']:
                    raise tlc.TLCMachineryError(f'history {d["tid"]} not consumed: {d}')
                verdicts[d['tid']] = sorted((c, pos) for c, pos in d['fails'])
    if len(verdicts) != len(traces):
        raise tlc.TLCMachineryError('missing verdicts')
    return verdicts, states


def run(prop: str, tier: str, write_evidence: bool = True, scale: float = 1.0):
    t0 = time.time()
    seed = harness.seed_from_env()
    rep = harness.Report(prop)
    T = TIERS[tier]
    rnd = random.Random(seed + 41)
    with harness.Scratch() as scratch:
        us = universes()
        uf = scratch / 'universes.json'
        tlc.dump_json(uf, us)
        mc = tlc.run_tlc('CacheHistory', T['gen'], scratch=scratch, workers=harness.NPROC, heap='6g',
                         env={'LV_UNIVERSES': str(uf)}, tag='hgen', timeout=2400)
        if mc.error or mc.violated:
            print(f'MACHINERY: CacheHistory model failed: {mc.error or mc.violated}\n{mc.out[-2000:]}')
            return 2
        hists = []
        for cfgname, num, depth in T['sims']:
            hists += sample_histories(cfgname, max(20, int(num * scale)), depth, uf, scratch, seed)
        jobs = []
        for k, (ui, hist) in enumerate(hists):
            ops = []
            for i, h in enumerate(hist):
                if h['op'] == 'run':
                    x = rnd.random()
                    backend = 'spawn' if x < T['spawn_prob'] else ('fork' if x < T['spawn_prob'] + T['fork_prob'] else 'serial')
                    if us[ui].get('mainmod') and x < 0.5:
                        backend = 'spawn'      # what matters for a main-module type is crossing into a spawned interpreter
                    ops.append({'op': 'run', 'req': h['req'], 'bust': bool(h['bust']), 'backend': backend, 'fail': h.get('fail', []),
                                'newproc': bool(i > 0 and rnd.random() < T['newproc_prob']),
                                # a clock too coarse to tell the start of a run from its end (recorded duration: exactly zero)
                                'frozen_clock': bool(backend != 'spawn' and rnd.random() < 0.12)})
                else:
                    ops.append({'op': 'uncache', 'ts': h['ts']})
            provider = T['providers'][k % len(T['providers'])]
            failing = any(o.get('fail') for o in ops)
            jobs.append({'id': f'{prop}-h{k}', 'u': us[ui], 'ops': ops, 'provider': provider, 'shape_seed': rnd.randrange(10 ** 5),
                         # the same task objects (and Lab object) reused from call to call in half of the histories;
                         # a fifth of the histories with a failing call use continue_on_failure=False
                         'reuse': rnd.random() < 0.5, 'cof': not (failing and rnd.random() < 0.2)})
        # Labs without a storage never persist anything
        for k in range(T['none_jobs']):
            ui, hist = hists[rnd.randrange(len(hists))]
            ops = [({'op': 'run', 'req': h['req'], 'bust': bool(h['bust']), 'backend': 'serial', 'newproc': False, 'fail': h.get('fail', [])}
                    if h['op'] == 'run' else {'op': 'uncache', 'ts': h['ts']}) for h in hist]
            jobs.append({'id': f'{prop}-n{k}', 'u': dict(us[ui], storage=False), 'ops': ops, 'provider': 'none',
                         'shape_seed': rnd.randrange(10 ** 5)})
        envs = [{'LABTECH_VERIF_TRACE': str(scratch / f'htrace_{i}.ndjson')} for i in range(harness.NPROC)]
        traces = harness.run_jobs(jobs, scratch, module='lv.rigs.history', env=envs)
        verdicts, vstates = validate(traces, scratch)
        by_id = {j['id']: j for j in jobs}
        nviol = 0
        for t in traces:
            fails = [(c, p) for c, p in verdicts[t['tid']] if harness.prop_of(c) == prop]
            if fails:
                nviol += 1
                job = by_id[t['tid']]
                c0, p0 = fails[0]
                fid = f'{c0}:{harness.hashlib.sha1(json.dumps([job["u"], job["ops"], job["provider"]], sort_keys=True).encode()).hexdigest()[:10]}'
                rep.violation(fid, f'{c0} false at call {p0} of {t["tid"]} (provider={job["provider"]}, ops={json.dumps(job["ops"])[:300]})',
                              {'property': prop, 'kind': 'history', 'job': job, 'fails': fails, 'observed': t['ops']})
        nontrivial = len({json.dumps([j['u'], j['ops'], j['provider']], sort_keys=True) for j in jobs
                          if sum(1 for o in j['ops'] if o['op'] == 'run') >= 2})
        cov = {
            'states': mc.distinct, 'transitions': mc.generated,
            'traces_validated_against_impl': len(traces),
            'samples': [{'universe': jobs[0]['u'], 'ops': jobs[0]['ops'], 'provider': jobs[0]['provider']},
                        {'observed_first_call': traces[0]['ops'][0]}],
            'evaluations': len(jobs), 'distinct_nontrivial': nontrivial,
            'rule': 'histories sampled by TLC -simulate from CacheHistory; non-trivial = at least two run_tasks calls '
                    '(so that a later call meets entries of an earlier one); distinct by (universe, calls, provider)',
            'exhaustive': False,
            'model': {'module': 'CacheHistory', 'cfg': T['gen'], 'universes': len(us), 'histories_enumerated': mc.distinct,
                      'wall_s': round(mc.wall_s, 1)},
            'fresh_interpreter_segments': sum(t['meta']['segments'] - 1 for t in traces),
            'calls_replayed': sum(len(t['ops']) for t in traces),
            'monitor_states': vstates,
            'violating_histories': nviol,
        }
        rc = rep.finish()
        if not write_evidence:
            return rc, cov
        harness.write_evidence(prop, tier, seed, 'model_checking', cov, time.time() - t0, nviol, [
            'values are compared structurally ([tid, epoch, dependency values]); byte-level pickle/json fidelity is trusted',
            'result_meta is compared as the (start, duration) pair recorded by the execution that stored the entry'])
        return rc


def replay(payload, path, scratch):
    job = dict(payload['job'], id='replay')
    envs = [{'LABTECH_VERIF_TRACE': str(scratch / 'htrace_r.ndjson')}]
    traces = harness.run_jobs([job], scratch, module='lv.rigs.history', env=envs, procs=1)
    verdicts, _ = validate(traces, scratch, par=1)
    print(json.dumps(traces[0]['ops'], indent=1)[:4000])
    fails = [(c, p) for c, p in verdicts['replay'] if harness.prop_of(c) == payload['property']]
    if fails:
        print(f'VIOLATION property={payload["property"]} replay={path}\n  {fails}')
        return 1
    print('replay: the property holds on this history')
    return 0
