from lv.checks import history, labrun, save

REGISTRY = {}
REPLAYERS = {'save-fault': save.replay, 'history': history.replay}
for _p in labrun.SPECS:
    REGISTRY[_p] = labrun.run
REGISTRY['C12'] = save.run
REGISTRY['C13'] = save.run
REGISTRY['C06'] = history.run
REGISTRY['C08'] = history.run
