from lv.checks import history, labrun, save, values

REGISTRY = {}
REPLAYERS = {'save-fault': save.replay, 'history': history.replay, 'value-case': values.replay}
for _p in labrun.SPECS:
    REGISTRY[_p] = labrun.run
REGISTRY['C12'] = save.run
REGISTRY['C13'] = save.run
REGISTRY['C06'] = history.run
REGISTRY['C08'] = history.run
REGISTRY['C07'] = values.run
REGISTRY['C09'] = values.run
REGISTRY['C15'] = values.run
