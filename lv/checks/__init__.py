from lv.checks import diagram, history, labrun, paths, save, values

REGISTRY = {}
REPLAYERS = {'save-fault': save.replay, 'history': history.replay, 'value-case': values.replay, 'path-case': paths.replay, 'diagram-case': diagram.replay}
for _p in labrun.SPECS:
    REGISTRY[_p] = labrun.run
REGISTRY['C12'] = save.run
REGISTRY['C13'] = save.run
REGISTRY['C06'] = history.run
REGISTRY['C08'] = history.run
REGISTRY['C07'] = values.run
REGISTRY['C09'] = values.run
REGISTRY['C15'] = values.run
REGISTRY['C18'] = paths.run
REGISTRY['C20'] = diagram.run
