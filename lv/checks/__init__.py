from lv.checks import labrun, save

REGISTRY = {}
REPLAYERS = {'save-fault': save.replay}
for _p in labrun.SPECS:
    REGISTRY[_p] = labrun.run
REGISTRY['C12'] = save.run
REGISTRY['C13'] = save.run
