from lv.checks import diagram, history, labrun, paths, save, values

REGISTRY = {}
REPLAYERS = {'save-fault': save.replay, 'history': history.replay, 'value-case': values.replay, 'path-case': paths.replay, 'diagram-case': diagram.replay}
for _p in labrun.SPECS:
    REGISTRY[_p] = labrun.run
REGISTRY['C12'] = save.run
REGISTRY['C13'] = save.run
REGISTRY['C06'] = history.run
REGISTRY['C08'] = history.run
REGISTRY['C07'] = values.run
REGISTRY['C09'] = values.run
REGISTRY['C15'] = values.run
REGISTRY['C18'] = paths.run
REGISTRY['C20'] = diagram.run


def _c03(prop, tier):
    """C03 = the single-call formulas of LabRunAbs, plus the same property over several calls on one Lab object
    (CacheHistoryTrace C03_...): stale state carried from one call to the next shows only there."""
    import json
    from lv import harness
    rc1 = labrun.run(prop, tier)
    if rc1 == 2:
        return 2
    rc2, cov = history.run(prop, tier, write_evidence=False, scale=0.4)
    p = harness.VERIF / 'evidence' / f'{prop}.json'
    ev = json.load(open(p))
    ev['coverage']['several_calls_on_one_lab'] = {k: cov[k] for k in ('traces_validated_against_impl', 'calls_replayed', 'fresh_interpreter_segments',
                                                                       'violating_histories', 'model')}
    ev['coverage']['traces_validated_against_impl'] += cov['traces_validated_against_impl']
    ev['violations'] = ev.get('violations', 0) + cov['violating_histories']
    json.dump(ev, open(p, 'w'), indent=1, default=str)
    return 1 if (rc1 or rc2) else 0


REGISTRY['C03'] = _c03
