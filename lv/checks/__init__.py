from lv.checks import labrun

REGISTRY = {}
REPLAYERS = {}
for _p in labrun.SPECS:
    REGISTRY[_p] = labrun.run
