"""C18 (LocalStorage never reads, writes or deletes outside its directory), decided by spec/LocalPaths.tla.

1. TLC checks, for every key / filename token sequence up to the bound, every mode and the symlinked layout,
   that the transcribed validation + resolution confines what each operation touches (ASSUMEs of LocalPaths),
   and emits every case with the model's prediction.
2. Every case is replayed on the real LocalStorage in a fresh sandbox; an audit hook and before/after
   snapshots record every path the operation opened, created, changed or removed.
3. LocalPathsObs (TLC) evaluates ObsConfined on the observed touched set (verdict) and compares error/success
   and the touched set with the model (drift).
"""
from __future__ import annotations

import json
import random
import time

from lv import harness, tlc


def run(prop: str, tier: str) -> int:
    t0 = time.time()
    seed = harness.seed_from_env()
    rep = harness.Report(prop)
    with harness.Scratch() as scratch:
        mc = tlc.run_tlc('LocalPaths', f'LocalPaths_{tier}.cfg', scratch=scratch, workers=1, heap='8g', tag='lp', timeout=3000)
        if mc.error or mc.violated:
            print(f'MACHINERY: LocalPaths model failed: {mc.error or mc.violated}\n{mc.out[-2000:]}')
            return 2
        cases = [json.loads(p) for p in mc.prints]
        total_cases = len(cases)
        rnd = random.Random(seed)
        limit = 12000 if tier == 'quick' else None
        exhaustive = limit is None or len(cases) <= limit
        if not exhaustive:
            # keep every exists / delete case and every file_handle case whose filename has <= 1 token; sample the rest
            keep = [c for c in cases if c['op'] != 'file_handle' or len(c['fn']) <= 1 or c['op'].startswith('mut:')]
            rest = [c for c in cases if c['op'] == 'file_handle' and len(c['fn']) > 1]
            rnd.shuffle(rest)
            cases = keep + rest[:max(0, limit - len(keep))]
        nj = harness.NPROC
        jobs = [{'id': f'{prop}-p{i}', 'cases': cases[i::nj]} for i in range(nj)]
        obs = harness.run_jobs(jobs, scratch, module='lv.rigs.paths')
        verdicts = {}
        parts = [obs[i::8] for i in range(8)]
        from concurrent.futures import ThreadPoolExecutor

        def judge(part):
            f = scratch / f'lpobs_{id(part)}.ndjson'
            tlc.dump_ndjson(f, [{k: o[k] for k in ('id', 'op', 'err', 'touched', 'model_err', 'model_touched')} for o in part])
            r = tlc.run_tlc('LocalPathsObs', 'LocalPathsObs.cfg', scratch=scratch, workers=1, heap='2g', env={'LV_OBS': str(f)},
                            tag='lpo', timeout=1800)
            if r.error or r.violated:
                raise tlc.TLCMachineryError(f'LocalPathsObs failed: {r.error or r.violated}\n{r.out[-2000:]}')
            return [json.loads(p) for p in r.prints if p.startswith('{"id"') or '"confined"' in p]
        with ThreadPoolExecutor(max_workers=8) as ex:
            for vs in ex.map(judge, [p for p in parts if p]):
                for v in vs:
                    verdicts[v['id']] = v
        nviol, drift = 0, 0
        for o in obs:
            v = verdicts[o['id']]
            drift += int(v['drift'])
            if not v['confined']:
                nviol += 1
                fid = f'{o["op"]}:{json.dumps([o["key"], o["fn"], o["mode"]], separators=(",", ":"))}'
                rep.violation(fid, f'touched {json.dumps(o["touched"])[:300]} (raised {o["exc"] or "nothing"})',
                              {'property': prop, 'kind': 'path-case', 'case': {k: o[k] for k in ('op', 'key', 'fn', 'mode')},
                               'model': {'err': o['model_err'], 'touched': o['model_touched']}, 'observation': o})
        cov = {
            'states': max(1, mc.distinct), 'transitions': max(1, mc.generated),
            'traces_validated_against_impl': len(obs),
            'samples': [{k: obs[0][k] for k in ('op', 'key', 'fn', 'mode', 'err', 'touched')},
                        next(({k: o[k] for k in ('op', 'key', 'fn', 'mode', 'err', 'exc', 'touched')} for o in obs
                              if o['op'] == 'file_handle' and not o['err']), {})],
            'evaluations': len(obs),
            'distinct_nontrivial': len({json.dumps([o['op'], o['key'], o['fn'], o['mode']]) for o in obs
                                        if any(t in ('..', '.', '/', '\\', '', 'lkout', 'lksib', 'ldang', 'lnout', 'lnsib', 'lnk2', 'lndang',
                                                     'ABS_SECRET', 'ABS_F', 'ABS_OUT', 'file0', 'sub') for t in o['key'] + o['fn'])}),
            'rule': 'cases = key token sequences x filename token sequences x modes from spec/LocalPaths.tla, each replayed in a fresh '
                    'sandbox; non-trivial = the key or filename contains a dot segment, a separator, an empty token, an absolute path or '
                    'the name of a symlink / non-directory; distinct by (operation, key, filename, mode)',
            'exhaustive': exhaustive, 'cases_in_model': total_cases,
            'model': {'module': 'LocalPaths', 'assumptions_checked': ['P_ExistsConfined', 'P_DeleteConfined', 'P_FileHandleConfined', 'P_NothingOutside']},
            'drift_cases': drift, 'violating_cases': nviol,
        }
        rc = rep.finish()
        harness.write_evidence(prop, tier, seed, 'model_checking', cov, time.time() - t0, nviol, [
            'POSIX path semantics (Linux); reads are observed through sys.addaudithook(open), effects through snapshots',
            'TLC evaluates the confinement properties as ASSUMEs over the bounded grammar: states/transitions are nominal'])
        return rc


def replay(payload, path, scratch):
    c = payload['case']
    case = dict(c, err=payload['model']['err'], touched=payload['model']['touched'])
    obs = harness.run_jobs([{'id': 'replay', 'cases': [case]}], scratch, module='lv.rigs.paths', procs=1)
    print(json.dumps(obs[0], indent=1))
    f = scratch / 'r.ndjson'
    tlc.dump_ndjson(f, [{k: obs[0][k] for k in ('id', 'op', 'err', 'touched', 'model_err', 'model_touched')}])
    r = tlc.run_tlc('LocalPathsObs', 'LocalPathsObs.cfg', scratch=scratch, workers=1, env={'LV_OBS': str(f)}, tag='lpo')
    v = json.loads(r.prints[0])
    if not v['confined']:
        print(f'VIOLATION property={payload["property"]} replay={path}')
        return 1
    print('replay: confined')
    return 0
