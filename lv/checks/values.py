"""C07 (cache keys), C09 (cached_tasks reconstruction) and C15 (task values), decided by spec/TaskValues.tla.

1. TLC checks over the whole bounded grammar (raw parameter trees x task types) that the transcribed
   Norm / Ser / Deser / DepsOf satisfy the property-level relations (round trip => key injectivity,
   idempotent normalisation, ...), and emits every case.
2. The real code is driven through every case: construction, normalisation, frozen-ness, equality /
   hashing, cache_key (plus the key recomputed after pickling, rebuilding, reconstruction from metadata,
   and in fresh interpreters under other hash seeds), dependencies, one run under a caching Lab, and
   cached_tasks for every type over the shared storage.
3. TaskValuesObs (TLC) evaluates the C07_... / C09_... / C15_... formulas on every observation.
"""
from __future__ import annotations

import json
import pickle
import random
import time
from concurrent.futures import ThreadPoolExecutor
from pathlib import Path

from lv import harness, tlc

DEFAULTS = dict(main_module_type=False, norm=['none', 'None', []], frozen=False, hashable=False, eq_twin=False, neq_other_types=False, key='',
                variants=[], recon_eq=False, pickle_ok=False, pickle_after_run_clean=False, storage_accepts=False,
                deps=[], ser=['jnone', 'None', []], ran=False, listed_own=0, listed_elsewhere=0, listed_key_ok=False,
                listed_meta_ok=False, listed_loads_stored=False, relisted_meta_ok=True, exc='')


def emit_cases(scratch):
    r = tlc.run_tlc('TaskValues', 'TaskValues_emit.cfg', scratch=scratch, workers=1, heap='4g', tag='tvemit', timeout=1800)
    if r.error or r.violated:
        raise tlc.TLCMachineryError(f'TaskValues failed: {r.error or r.violated}\n{r.out[-2000:]}')
    cases = [json.loads(p) for p in r.prints]
    stats = [l for l in r.out.splitlines() if '"grammar"' in l]
    return cases, r, (stats[0] if stats else '')


def judge(obs, listings, scratch, par=harness.NPROC, prop='C07', candidates=False):
    """C07_Distinct compares every case with all earlier ones of the same batch, so every batch gets *all* observations
    of the job (a prefix); batches differ in the range of cases whose verdict they report."""
    lf = scratch / 'listings.ndjson'
    tlc.dump_ndjson(lf, listings or [{'id': 'none', 'listing_foreign': 0, 'listing_dups': 0, 'listing_error': ''}])
    f = scratch / 'obs_all.ndjson'
    if candidates:
        # quick tier: the pairwise comparison of cache keys is restricted to the pairs that have the same key string (a
        # grouping by equality of a recorded field, done here; TLC re-checks that the listed pairs do have equal keys and
        # judges them).  The thorough tier lets TLC compare every pair.
        groups = {}
        for i, o in enumerate(obs, 1):
            if o.get('accepted') and o.get('key'):
                groups.setdefault(o['key'], []).append(i)
        obs = [dict(o, same_key=[j for j in groups.get(o.get('key'), []) if j < i]) for i, o in enumerate(obs, 1)]
    tlc.dump_ndjson(f, obs)
    r = tlc.run_tlc('TaskValuesObs', 'TaskValuesObs.cfg', scratch=scratch, workers=1, heap='6g',
                    env={'LV_OBS': str(f), 'LV_LISTINGS': str(lf), 'LV_PROP': prop}, tag='tvobs', timeout=3000)
    if r.error or r.violated:
        raise tlc.TLCMachineryError(f'TaskValuesObs failed: {r.error or r.violated}\n{r.out[-2500:]}')
    verdicts = {}
    for p in r.prints:
        d = json.loads(p)
        verdicts[d['id']] = d['fails']
    return verdicts, r


def run(prop: str, tier: str) -> int:
    t0 = time.time()
    seed = harness.seed_from_env()
    rep = harness.Report(prop)
    with harness.Scratch() as scratch:
        cases, mc, stats = emit_cases(scratch)
        rnd = random.Random(seed)
        protocols = [pickle.HIGHEST_PROTOCOL] if tier == 'quick' else list(range(0, pickle.HIGHEST_PROTOCOL + 1))
        hashseeds = [7] if tier == 'quick' else [7, 1, 123, 4242]
        # one job = one shared storage; every job sees the whole grammar in a different order
        orders = 1 if tier == 'quick' else 3
        parts = 8           # each part has its own shared storage; all parts of one order are judged together
        jobs = []
        for k in range(orders):
            cs = list(cases)
            rnd.shuffle(cs)
            for j in range(parts):
                jobs.append({'id': f'{prop}-g{k}p{j}', 'order': k, 'cases': cs[j::parts], 'protocols': protocols, 'hashseeds': hashseeds})
        raw = harness.run_jobs(jobs, scratch, module='lv.rigs.values', procs=len(jobs))
        nviol, total, drift = 0, 0, 0
        for k in range(orders):
            recs = [r for r in raw if r['id'].startswith(f'{prop}-g{k}p')]
            obs = [dict(DEFAULTS, **r) for r in recs if 'accepted' in r]
            listings = [dict({'listing_error': '', 'listing_foreign': 0, 'listing_dups': 0}, **r) for r in recs if 'accepted' not in r]
            # merge the two kinds of listing records per type
            merged = {}
            for r in listings:
                m = merged.setdefault(r['id'], {'id': r['id'], 'listing_error': '', 'listing_foreign': 0, 'listing_dups': 0})
                for kk in ('listing_error', 'listing_foreign', 'listing_dups'):
                    if r.get(kk):
                        m[kk] = r[kk]
            verdicts, vr = judge(obs, list(merged.values()), scratch, prop=prop, candidates=(tier == 'quick'))
            total += len(obs)
            for o in obs + list(merged.values()):
                fails = verdicts.get(o['id'], [])
                drift += int('drift_ser' in fails)
                mine = [c for c in fails if harness.prop_of(c) == prop]
                if mine:
                    nviol += 1
                    what = {k2: o.get(k2) for k2 in ('ty', 'raw', 'accepted', 'exc', 'key', 'variants', 'listed_own', 'listed_elsewhere',
                                                     'listed_key_ok', 'listed_meta_ok', 'listed_loads_stored', 'recon_eq', 'pickle_detail',
                                                     'listing_foreign', 'listing_error', 'foreign_sample', 'relisted_meta_ok', 'relist_detail',
                                                     'relist_exc') if k2 in o}
                    fid = f'{mine[0]}:{json.dumps([o.get("ty"), o.get("raw")], separators=(",", ":"))[:160]}'
                    if o.get('main_module_type'):
                        fid = f'{mine[0]}:copy of a task whose type is defined in the main module, sent to a spawned interpreter ({o["id"]})'
                    brief = {k2: what[k2] for k2 in ('listed_own', 'listed_elsewhere', 'listed_key_ok', 'listed_meta_ok', 'listed_loads_stored',
                                                     'recon_eq', 'pickle_detail', 'listing_foreign', 'listing_error', 'exc', 'relisted_meta_ok',
                                                     'relist_detail', 'relist_exc') if k2 in what}
                    rep.violation(fid, f'{mine}: {json.dumps(brief)[:600]}',
                                  {'property': prop, 'kind': 'value-case', 'case': [o.get('ty'), o.get('raw')], 'fails': mine, 'observation': o})
        accepted = sum(1 for r in raw if r.get('accepted'))
        cov = {
            'states': max(1, mc.distinct), 'transitions': max(1, mc.generated),
            'traces_validated_against_impl': total,
            'samples': [{'case': cases[0]}, {'case': cases[len(cases) // 2]},
                        {'observation': {k: v for k, v in next(r for r in raw if r.get('accepted')).items() if k != 'ser'}}],
            'evaluations': total,
            'distinct_nontrivial': len({json.dumps(c) for c in cases if c[1][0] not in ('none', 'str', 'bool', 'int', 'float', 'enum')}),
            'rule': 'cases = the whole bounded grammar of spec/TaskValues.tla (raw trees of depth <= 2-3 x 4 task types), every case '
                    'driven through the real code; non-trivial = the raw value is a collection, a task or an unsupported kind; distinct by case',
            'exhaustive': True,
            'grammar': stats, 'accepted_by_code': accepted,
            'model': {'module': 'TaskValues', 'checked': ['P_RoundTrip', 'P_NormIdempotent', 'P_DepsDefined', 'P_KeysDistinguishTypes']},
            'drift_ser': drift, 'violating_cases': nviol,
            'pickle_protocols': protocols, 'hash_seeds_of_fresh_interpreters': hashseeds,
        }
        rc = rep.finish()
        harness.write_evidence(prop, tier, seed, 'model_checking', cov, time.time() - t0, nviol, [
            'sha1 and json.dumps are trusted to be injective on distinct serialised trees; scalars are a fixed pool of atoms',
            'TLC evaluates the grammar properties as ASSUMEs (the module has no behaviour): states/transitions are nominal'])
        return rc


def replay(payload, path, scratch):
    ty, rawv = payload['case']
    job = {'id': 'replay', 'cases': [[ty, rawv]], 'protocols': [pickle.HIGHEST_PROTOCOL], 'hashseeds': [7]}
    raw = harness.run_jobs([job], scratch, module='lv.rigs.values', procs=1)
    obs = [dict(DEFAULTS, **r) for r in raw if 'accepted' in r]
    verdicts, _ = judge(obs, [], scratch, prop=payload['property'])
    print(json.dumps(obs[0], indent=1)[:3000])
    mine = [c for c in verdicts[obs[0]['id']] if harness.prop_of(c) == payload['property']]
    if mine:
        print(f'VIOLATION property={payload["property"]} replay={path}\n  {mine}')
        return 1
    print('replay: the property holds on this case')
    return 0
