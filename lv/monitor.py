"""Hand recorded executions to the property-level monitor (spec/LabRunAbsTrace.tla)."""
from __future__ import annotations

import json
import re
from pathlib import Path
from typing import Optional

from lv import tlc

KEEP = {'submit', 'pstart', 'rbegin', 'dread', 'rend', 'load', 'w_die', 'w_term', 'sample', 'consume', 'died',
        'exec_stop', 'complete', 'capture', 'removed', 'closed', 'int', 'outcome', 'obs_cache', 'obs_marks',
        'obs_logs', 'lemit', 'obs_ctxstore', 'pb_new', 'pb_upd', 'pb_close', 'rest'}
TOKEN = re.compile(r'msg:\d+:\w:\d+')


def _nn(x):
    """JSON null has no TLA+ counterpart: None is handed over as the one-element sequence <<"None">> (a renaming; values
    are sequences everywhere else, and TLC only compares like with like)."""
    if x is None:
        return ['None']
    if isinstance(x, list):
        return [_nn(y) for y in x]
    if isinstance(x, dict):
        return {k: _nn(v) for k, v in x.items()}
    return x


def to_monitor(tid: str, cfg: dict, trace: list, *, real: bool = False, caller_pid: Optional[int] = None,
               mark: Optional[str] = None, ctxkeys: Optional[list] = None, tnames: Optional[list] = None) -> dict:
    """Project a recorded execution onto the events the monitor consumes.  Pure renaming and
    filtering: no expected behaviour is computed here."""
    ev = []
    for r in trace:
        k = r['e']
        if k not in KEEP:
            continue
        if k == 'rbegin':
            pid = r.get('pid')
            ev.append({'e': k, 't': r['t'],
                       'samepid': int(caller_pid is not None and pid == caller_pid),
                       'childofcaller': int(caller_pid is not None and r.get('ppid') == caller_pid),
                       'main': int(r.get('main', 0)),
                       'seesmark': int(mark is not None and r.get('mark') == mark),
                       'freshimport': int(r.get('impid') == pid),
                       'ctx': r.get('ctx') or '', 'pname': r.get('pname') or ''})
        elif k == 'obs_logs':
            toks = []
            for m in r['delivered']:
                toks += TOKEN.findall(m)
            ev.append({'e': k, 'delivered': toks})
        elif k == 'outcome':
            ev.append({'e': k, 'kind': r['kind'], 'exc': r['exc'], 'cause': r['cause'], 'keys': r['keys'],
                       'vals': r['vals']})
        else:
            if 't' in r and not isinstance(r['t'], int):
                raise ValueError(f'event without an integer task id: {r}')
            ev.append({kk: vv for kk, vv in r.items() if kk not in ('pid', 's', 'at', 'msg')})
    c = dict(cfg)
    if tnames is not None:
        c['tnames'] = tnames
    c['real'] = bool(real)
    c['ctxkeys'] = ctxkeys if ctxkeys is not None else ['' for _ in range(cfg['n'])]
    return {'tid': tid, 'cfg': c, 'ev': _nn(ev)}


def validate(traces: list, scratch: Path, *, props: str = 'ALL', heap: str = '2g', timeout: float = 3600) -> dict:
    """Run the monitor over a batch.  Returns {tid: [(clause, position), ...]} and statistics."""
    scratch = Path(scratch)
    if not traces:
        return {'verdicts': {}, 'states': 0, 'generated': 0, 'wall_s': 0.0}
    f = scratch / f'traces_{id(traces)}.ndjson'
    tlc.dump_ndjson(f, traces)
    r = tlc.run_tlc('LabRunAbsTrace', 'LabRunAbsTrace.cfg', scratch=scratch, workers=1, heap=heap,
                    env={'LV_TRACES': str(f), 'LV_PROPS': props}, timeout=timeout, tag='mon')
    f.unlink(missing_ok=True)
    if r.error or r.violated:
        raise tlc.TLCMachineryError(f'monitor run failed: {r.error or r.violated}\n{r.out[-3000:]}')
    verdicts = {}
    for p in r.prints:
        d = json.loads(p)
        if d['reached'] != d['n']:
            raise tlc.TLCMachineryError(f'monitor did not consume trace {d["tid"]}: {d}')
        verdicts[d['tid']] = sorted((c, pos) for c, pos in d['fails'])
    if len(verdicts) != len(traces):
        raise tlc.TLCMachineryError(f'{len(verdicts)} verdicts for {len(traces)} traces\n{r.out[-2000:]}')
    return {'verdicts': verdicts, 'states': r.distinct, 'generated': r.generated, 'wall_s': r.wall_s}
