"""Self-test of the machinery (./check --selftest): shows that the specifications are not vacuous and that the
trace validation is bound to what the hooks record.

1. MODEL MUTATIONS.  The implementation-level model spec/LabRun.tla is copied and one action is changed the way
   a plausible code defect would change it; TLC must then report the violation of the named property-level
   formula through the refinement mapping.  (The unmutated model satisfies all of them: that is step 1 of
   every check.)
2. TRACE CORRUPTIONS.  A clean execution of the real code is recorded; one recorded field is corrupted, or the
   events of one hook are removed; the property-level monitor must reject the corrupted trace with the named
   formula, and accept the original.

Exit 0 iff every mutation / corruption is detected and every original is accepted.
"""
from __future__ import annotations

import copy
import json
import shutil
import sys
import time
from pathlib import Path

from lv import families, harness, monitor, tlc
from lv.checks import labrun

MODEL_MUTATIONS = [
    # (name, text to replace, replacement, family overrides, max_int, logs, formula that must fail)
    ('remove_results stops at the first task without a result (D4)',
     "  /\\ rmap' = rmap \\ removable\n",
     "  /\\ rmap' = IF \\E x \\in removable : x \\notin rmap THEN rmap ELSE rmap \\ removable\n",
     dict(n=3, ntypes=1, maxpars=(99,), maxws=(2,), backends=('fork',), cached='none', reqs='roots', fails='singles'), 0, False,
     'A_C17_EmptyAtReturn'),
    ('get_ready_tasks ignores pending dependencies',
     "       IF pdeps[t] # {} \\/ counts[y] >= cfg.maxpar[y]\n",
     "       IF counts[y] >= cfg.maxpar[y]\n",
     dict(n=3, ntypes=1, maxpars=(99,), maxws=(2,), backends=('fork',), cached='none', reqs='roots'), 0, False,
     'A_C02_SubmitAfterDeps'),
    ('type limit compared with > instead of >=',
     "       IF pdeps[t] # {} \\/ counts[y] >= cfg.maxpar[y]\n",
     "       IF pdeps[t] # {} \\/ counts[y] > cfg.maxpar[y]\n",
     dict(n=3, ntypes=1, maxpars=(1,), maxws=(3,), backends=('fork',), cached='none', reqs='roots'), 0, False,
     'A_C04_Type'),
    ('executor starts one process too many',
     "StartK(ep, run) == Min2(IF MaxW > Cardinality(run) THEN MaxW - Cardinality(run) ELSE 0, Len(ep))",
     "StartK(ep, run) == Min2(IF MaxW + 1 > Cardinality(run) THEN MaxW + 1 - Cardinality(run) ELSE 0, Len(ep))",
     dict(n=3, ntypes=1, maxpars=(99,), maxws=(1, 2), backends=('fork',), cached='none', reqs='roots'), 0, False,
     'A_C04_Workers'),
    ('wait() no longer starts pending processes',
     "         S == StartSet(epend, run1) IN\n",
     "         S == {} IN\n",
     dict(n=3, ntypes=1, maxpars=(99,), maxws=(1,), backends=('fork',), cached='none', reqs='roots'), 0, False,
     'A_C05_AtRest'),
    ('dead processes are never detected',
     "  /\\ LET deadNow == {t \\in deadS : fut[t] = \"pending\"}\n",
     "  /\\ LET deadNow == {}\n",
     dict(n=2, ntypes=1, maxpars=(99,), maxws=(1,), backends=('fork',), cached='none', reqs='roots'), 0, False,
     'C11_Termination'),
    ('the plan expands the dependencies of cached tasks',
     "DepSeq(t) == IF UseCacheNow(t) THEN <<>> ELSE cfg.deps[t]",
     "DepSeq(t) == cfg.deps[t]",
     dict(n=3, ntypes=1, maxpars=(99,), maxws=(2,), backends=('fork',), cached='all-subsets', reqs='roots'), 0, False,
     'A_C03_OnlyNeeded'),
    ('a failed requested task gets a value in the returned dict',
     "          /\\ outKeys' = SelectSeq(Dedup(cfg.req), LAMBDA t : t \\in captured)\n",
     "          /\\ outKeys' = Dedup(cfg.req)\n",
     dict(n=2, ntypes=1, maxpars=(99,), maxws=(2,), backends=('fork',), cached='none', reqs='subsets', fails='singles'), 0, False,
     'A_C10_NoValueForFailed'),
    ('no second drain of the log queue after executor.wait',
     "  /\\ lg' = [lg EXCEPT !.del = @ \\o lg.q, !.q = <<>>]                \\* second drain, after executor.wait\n",
     "  /\\ lg' = lg\n",
     dict(n=2, ntypes=1, maxpars=(99,), maxws=(2,), backends=('fork',), cached='none', reqs='roots'), 0, True,
     'A_C19_ExactlyOnce'),
    ('cancel() leaves queued futures in the executor',
     "  /\\ epend' = <<>>\n  /\\ subq' = <<>>\n",
     "  /\\ epend' = epend\n  /\\ subq' = <<>>\n",
     dict(n=3, ntypes=1, maxpars=(99,), maxws=(1,), backends=('fork',), cached='none', reqs='roots'), 1, False,
     'A_C14_NoStartAfterInterrupt'),
    ('the first interrupt is swallowed: the run returns normally',
     "     ELSE pc' = \"closing\" /\\ exitk' = \"KeyboardInterrupt\"\n  /\\ UNCHANGED <<ci, cfg, mode, pend,",
     "     ELSE pc' = \"closing\" /\\ exitk' = \"return\"\n  /\\ UNCHANGED <<ci, cfg, mode, pend,",
     dict(n=2, ntypes=1, maxpars=(99,), maxws=(2,), backends=('fork',), cached='none', reqs='roots'), 1, False,
     'A_C14_ExitClass'),
    ('spawn hands over nothing (dependents cannot read their dependencies)',
     "                  /\\ LET handed == IF u THEN {} ELSE Deps(t) \\cap rmap\n",
     "                  /\\ LET handed == {}\n",
     dict(n=2, ntypes=1, maxpars=(99,), maxws=(2,), backends=('spawn',), cached='none', reqs='roots'), 0, False,
     'A_C10_OnlyOwnFailures'),
    ('the failing round of a fail-fast run is not drained before the failure is raised',
     "  /\\ lg' = [lg EXCEPT !.del = @ \\o lg.q, !.q = <<>>]                \\* second drain, after executor.wait\n",
     "  /\\ lg' = lg\n",
     dict(n=2, ntypes=1, maxpars=(99,), maxws=(2,), backends=('fork',), cached='none', reqs='roots', fails='singles', cofs=(False,)), 0, True,
     'A_C19_DeliveredBeforeRaise'),
    ('task numbers start at 0',
     "                          /\\ tname' = [tname EXCEPT ![t] = tcount[cfg.typ[t]] + 1]\n",
     "                          /\\ tname' = [tname EXCEPT ![t] = tcount[cfg.typ[t]]]\n",
     dict(n=2, ntypes=1, maxpars=(99,), maxws=(2,), backends=('fork',), cached='none', reqs='roots'), 0, False,
     'A_G01_Names'),
    ('the progress bar also advances for failed tasks',
     "       /\\ pb' = IF Grow /\\ ok THEN [pb EXCEPT",
     "       /\\ pb' = IF Grow THEN [pb EXCEPT",
     dict(n=2, ntypes=1, maxpars=(99,), maxws=(2,), backends=('fork',), cached='none', reqs='roots', fails='singles'), 0, False,
     'A_G02_Count'),
]

FORMULAS = {
    'A_C19_DeliveredBeforeRaise': (['A_C19_DeliveredBeforeRaise'], []), 'A_G01_Names': (['A_G01_Names'], []),
    'A_G02_Count': (['A_G02_Count'], []),
    'A_C17_EmptyAtReturn': (['A_C17_EmptyAtReturn'], []), 'A_C02_SubmitAfterDeps': ([], ['A_C02_SubmitAfterDeps']),
    'A_C04_Type': (['A_C04_Type'], []), 'A_C04_Workers': (['A_C04_Workers'], []), 'A_C05_AtRest': (['A_C05_AtRest'], []),
    'A_C03_OnlyNeeded': (['A_C03_OnlyNeeded'], []), 'A_C10_NoValueForFailed': (['A_C10_NoValueForFailed'], []),
    'A_C19_ExactlyOnce': (['A_C19_ExactlyOnce'], []), 'A_C14_NoStartAfterInterrupt': ([], ['A_C14_NoStartAfterInterrupt']),
    'A_C14_ExitClass': (['A_C14_ExitClass'], []), 'A_C10_OnlyOwnFailures': (['A_C10_OnlyOwnFailures'], []),
}


def model_mutations(scratch: Path) -> list:
    out = []
    src = (tlc.SPEC_DIR / 'LabRun.tla').read_text()
    for name, old, new, fam, max_int, logs, formula in MODEL_MUTATIONS:
        if src.count(old) != 1:
            out.append((name, formula, False, f'pattern found {src.count(old)} times'))
            continue
        f = dict(fam)
        n = f.pop('n')
        cfgs = families.family(n, **f)
        mdir = scratch / f'mut_{len(out)}'
        mdir.mkdir()
        for p in tlc.SPEC_DIR.iterdir():
            if p.suffix == '.tla':
                shutil.copy(p, mdir / p.name)
        (mdir / 'LabRun.tla').write_text(src.replace(old, new))
        cf = harness.write_cfgs(cfgs, scratch)
        if formula == 'C11_Termination':
            text = harness.labrun_cfg_text(invariants=[], properties=['C11_Termination'], spec='FairSpec')
        else:
            invs, props = FORMULAS[formula]
            text = harness.labrun_cfg_text(invariants=invs, properties=props, max_int=max_int, logs=logs,
                                           grow=formula.startswith('A_G'))
        saved = tlc.SPEC_DIR
        tlc.SPEC_DIR = mdir
        try:
            r = tlc.run_tlc('LabRun', 'gen.cfg', scratch=scratch, workers=harness.NPROC, heap='4g', env={'LV_CFGS': str(cf)},
                            cfg_text=text, tag='mut', timeout=900)
        finally:
            tlc.SPEC_DIR = saved
        got = r.violated or ''
        ok = (got == formula) or (formula == 'C11_Termination' and got in ('temporal', 'C11_Termination'))
        out.append((name, formula, ok, f'TLC reported: {got or r.error and r.error[:120] or "no violation"} ({r.distinct} states)'))
    return out


OTHER_MUTATIONS = [
    # (name, module file, config, text to replace, replacement, invariant that must fail, extra cfg text or None)
    ('dicts with reserved keys are not wrapped (D11)', 'TaskTrees.tla', 'TaskValues.cfg',
     "         IF HasReservedKey(v)       \\* a parameter dict", "         IF FALSE       \\* a parameter dict", 'I_RoundTrip', None),
    ('deserialisation does not descend into lists (D13)', 'TaskTrees.tla', 'TaskValues.cfg',
     '    [] Kind(j) = "jlist" -> N("tuple", "", [i \\in DOMAIN Kids(j) |-> Deser(Kids(j)[i])])',
     '    [] Kind(j) = "jlist" -> N("tuple", "", [i \\in DOMAIN Kids(j) |-> N(SubSeq(Kind(Kids(j)[i]), 2, Len(Kind(Kids(j)[i]))), Atom(Kids(j)[i]), <<>>)])',
     'I_RoundTrip', None),
    ('a str-mixin enum member used as a dict key is written by its qualified name', 'TaskTrees.tla', 'TaskValues.cfg',
     'IF i % 2 = 1 THEN JStr(KeyStr(ks[i])) ELSE Ser(ks[i])]', 'IF i % 2 = 1 THEN JStr(Atom(ks[i])) ELSE Ser(ks[i])]', 'I_RoundTrip', None),
    ('delete removes the key directory but keeps its files', 'StorageSeq.tla', 'StorageSeq_gen.cfg',
     'IF x[1] = k THEN Absent ELSE s.data[x]]]', 's.data[x]]]', 'DataOnlyInDirs', None),
    ('the cycle search only looks for tasks that depend on themselves directly', 'CycleCheck.tla', 'CycleCheck_gen.cfg',
     'IF d = task \\/ d \\in parents THEN', 'IF d = task THEN', 'I_Verdict', None),
    ('a "-key" sort order is not reversed', 'TopList.tla', 'TopList_gen.cfg',
     'IF Rev(c.sort) THEN Reverse(srt) ELSE srt', 'srt', 'I_Sorted', None),
    ('the key directory is not required to be a child of the storage directory', 'LocalPaths.tla', 'LocalPaths_quick.cfg',
     "KeyOk(kts) == ~KeyErr(kts) /\\ Parent(KeyPath(kts)) = S", "KeyOk(kts) == ~KeyErr(kts)", 'I_NothingOutside', None),
    ('the filename is not resolved before the parent check (symlinks followed afterwards)', 'LocalPaths.tla', 'LocalPaths_quick.cfg',
     "           fp == Resolve(kp, PathOf(fts)) IN\n       IF Parent(fp) # kp \\/ fp = kp THEN",
     "           fp0 == kp \\o PathOf(fts).comps\n           fp == Resolve(kp, PathOf(fts)) IN\n       IF Parent(fp0) # kp \\/ fp0 = kp THEN",
     'I_Confined', None),
    ('"many" is taken from the last relationship seen instead of or-ed', 'TaskDiagram.tla', 'TaskDiagram_emit.cfg',
     "  IF k \\in DOMAIN rels THEN [rels EXCEPT ![k] = @ \\/ r[4]] ELSE", "  IF k \\in DOMAIN rels THEN [rels EXCEPT ![k] = r[4]] ELSE",
     'I_TerminalMatches', None),
    ('the pinned save protocol (metadata first, is_cached = directory exists)', 'SaveProtocol.tla', 'SaveProtocol_first.cfg',
     "XXX", "XXX", 'NoPoison', 'CONSTANTS\n  Proto = "meta-first"\n  Overwrite = FALSE\n  Enumerate = FALSE\nSPECIFICATION Spec\nINVARIANT NoPoison\n'),
    ('a cached entry is replaced by a run that only loaded it', 'CacheMap.tla', 'CacheHistory_gen2.cfg',
     "     IF t \\in OkExecuted(c, st, req, bust, F) /\\ CacheableIn(c, t)", "     IF t \\in Closure(c, st, req, bust) /\\ CacheableIn(c, t)",
     'OnlyOwnEntryChanges', None),
]


def other_mutations(scratch: Path) -> list:
    out = []
    from lv.checks import history
    for name, fname, cfgname, old, new, inv, cfg_text in OTHER_MUTATIONS:
        src = (tlc.SPEC_DIR / fname).read_text()
        old_, new_ = old.replace('\\\\', '\\'), new.replace('\\\\', '\\')
        if old_ != 'XXX' and src.count(old_) != 1:
            out.append((name, inv, False, f'pattern found {src.count(old_)} times in {fname}'))
            continue
        mdir = scratch / f'omut_{len(out)}'
        mdir.mkdir()
        for p in tlc.SPEC_DIR.iterdir():
            if p.suffix in ('.tla', '.cfg'):
                shutil.copy(p, mdir / p.name)
        if old_ != 'XXX':
            (mdir / fname).write_text(src.replace(old_, new_))
        env = {}
        if fname == 'CacheMap.tla':
            uf = scratch / 'st_universes.json'
            tlc.dump_json(uf, history.universes()[:2])
            env['LV_UNIVERSES'] = str(uf)
        module = {'TaskTrees.tla': 'TaskValues', 'CacheMap.tla': 'CacheHistory'}.get(fname, fname[:-4])
        saved = tlc.SPEC_DIR
        tlc.SPEC_DIR = mdir
        try:
            r = tlc.run_tlc(module, cfgname, scratch=scratch, workers=harness.NPROC, heap='4g', env=env, cfg_text=cfg_text, tag='omut',
                            timeout=900)
        finally:
            tlc.SPEC_DIR = saved
        got = r.violated or ''
        # (the key-injectivity ASSUME of TaskValues, evaluated before the state space is explored, may catch a serialiser
        # mutation before the round-trip invariant does)
        assumed = inv == 'I_RoundTrip' and bool(r.error) and 'Assumption' in r.error and 'TaskValues' in r.error
        out.append((name, inv, got == inv or assumed or (got == 'I_Confined' and inv == 'I_NothingOutside'), f'TLC reported: {got or (r.error and r.error[:160]) or "no violation"} ({r.distinct} states)'))
    return out


def trace_corruptions(scratch: Path) -> list:
    cfg = families.mk(3, [[], [1], [1, 2]], [1, 1, 1], [99], [True], [], [3, 1], 'fork', 2)
    sched = [["S"], ["fin", 1], ["exit", 1], ["C"], ["S"], ["fin", 2], ["C"], ["S"], ["fin", 3], ["C"]]
    job = {'id': 'st-base', 'cfg': cfg, 'schedule': sched, 'shape_seed': 5, 'beh': {'1': 'L1', '2': 'P1', '3': 'L1'}, 'progress': True}
    base = harness.run_jobs([job], scratch, procs=1)[0]

    def variant(name, fn):
        t = copy.deepcopy(base)
        t['tid'] = name
        fn(t['ev'])
        return t

    def set_field(kind, key, value, nth=0):
        def f(ev):
            k = [e for e in ev if e['e'] == kind][nth]
            k[key] = value
        return f

    def drop(kind, pred=lambda e: True):
        def f(ev):
            ev[:] = [e for e in ev if not (e['e'] == kind and pred(e))]
        return f

    def move_before(kind_a, pred_a, kind_b, pred_b):
        def f(ev):
            a = next(e for e in ev if e['e'] == kind_a and pred_a(e))
            ev.remove(a)
            i = next(i for i, e in enumerate(ev) if e['e'] == kind_b and pred_b(e))
            ev.insert(i, a)
        return f
    cases = [
        ('value of a run() result corrupted', variant('c-rend', set_field('rend', 'v', [1, 7, []])), 'C01_Digest'),
        ('returned key order corrupted', variant('c-keys', lambda ev: [e.update(keys=list(reversed(e['keys'])), vals=list(reversed(e['vals'])))
                                                                        for e in ev if e['e'] == 'outcome']), 'C01_Keys'),
        ('a dependency read reported before the dependency finished',
         variant('c-order', move_before('rbegin', lambda e: e['t'] == 3, 'consume', lambda e: e['t'] == 2)), 'C02_RunAfterDeps'),
        ('hook removed: complete', variant('c-nocomplete', drop('complete', lambda e: e['t'] == 2)), 'C10_Continue'),
        ('hook removed: consume (the slot is never given back)', variant('c-noconsume', drop('consume', lambda e: e['t'] == 1)), 'C05_AtRest'),
        ('held set after the last release corrupted', variant('c-held', lambda ev: [e.update(held=[1]) for e in ev if e['e'] == 'closed']),
         'C17_EmptyAtReturn'),
        ('a submit reported twice', variant('c-twice', lambda ev: ev.insert(1, dict(next(e for e in ev if e['e'] == 'submit')))), 'C03_AtMostOnce'),
        ('a delivered log record dropped', variant('c-log', lambda ev: [e.update(delivered=e['delivered'][1:]) for e in ev if e['e'] == 'obs_logs']),
         'C19_ExactlyOnce'),
        ('capture event removed', variant('c-nocapture', drop('capture', lambda e: e['t'] == 3)), 'C17_Captured'),
        ('a worker saw another process name', variant('c-pname', set_field('rbegin', 'pname', 'T1pNc1[3]', 0)), 'G01_Names'),
        ('a progress-bar update removed', variant('c-pbupd', drop('pb_upd', lambda e: True)), 'G02_Count'),
        ('the progress bar is never closed', variant('c-pbclose', drop('pb_close')), 'G02_Closed'),
    ]
    traces = [base] + [c[1] for c in cases]
    val = harness.validate_parallel([{k: t[k] for k in ('tid', 'cfg', 'ev')} for t in traces], scratch, props='ALL', par=4)
    out = [('original trace accepted', '-', val['verdicts'][base['tid']] == [], f'{val["verdicts"][base["tid"]]}')]
    for name, t, formula in cases:
        fails = [c for c, _ in val['verdicts'][t['tid']]]
        out.append((name, formula, formula in fails, f'monitor reported: {fails}'))
    return out


def main() -> int:
    t0 = time.time()
    ok = True
    with harness.Scratch() as scratch:
        print('== trace corruptions (monitor must reject)')
        for name, formula, good, detail in trace_corruptions(scratch):
            print(f'  [{"ok" if good else "MISSED"}] {name} -> {formula}   {detail}')
            ok = ok and good
        print('== model mutations (TLC must report the formula through the refinement mapping)')
        for name, formula, good, detail in model_mutations(scratch):
            print(f'  [{"ok" if good else "MISSED"}] {name} -> {formula}   {detail}')
            ok = ok and good
    with harness.Scratch() as scratch:
        print('== mutations of the other specifications (TLC must report the named invariant)')
        for name, formula, good, detail in other_mutations(scratch):
            print(f'  [{"ok" if good else "MISSED"}] {name} -> {formula}   {detail}')
            ok = ok and good
    print(f'selftest {"passed" if ok else "FAILED"} in {time.time() - t0:.0f}s')
    return 0 if ok else 1


if __name__ == '__main__':
    sys.exit(main())
