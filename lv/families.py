"""Configuration families: the same dictionaries go to TLC (as JSON, read through
IOEnv.LV_CFGS) and to the rigs that drive the real code.

A configuration is JSON-shaped; see the header of spec/LabRunAbs.tla.
"""
from __future__ import annotations

import itertools
import random
from typing import Iterable, Iterator

UNL = 99       # "Unlimited" max_parallel in the specs
CPU = 16       # what max_workers=None means here (os.cpu_count())


def dags(n: int) -> Iterator[list]:
    """All dependency assignments on tasks 1..n where deps have lower ids."""
    choices = []
    for t in range(1, n + 1):
        lower = list(range(1, t))
        subs = []
        for k in range(len(lower) + 1):
            subs += [list(c) for c in itertools.combinations(lower, k)]
        choices.append(subs)
    for combo in itertools.product(*choices):
        yield [list(c) for c in combo]


def type_assignments(n: int, ntypes: int) -> Iterator[list]:
    """Type assignments up to renaming: typ[1]=1, typ[t] <= 1 + max(previous)."""
    def rec(prefix):
        if len(prefix) == n:
            yield list(prefix)
            return
        mx = max(prefix) if prefix else 0
        for y in range(1, min(ntypes, mx + 1) + 1):
            yield from rec(prefix + [y])
    yield from rec([])


def subsets(xs: list) -> Iterator[list]:
    for k in range(len(xs) + 1):
        for c in itertools.combinations(xs, k):
            yield list(c)


def closure(deps: list, req: Iterable[int], cached: Iterable[int] = (), bust: bool = False) -> set:
    cached = set() if bust else set(cached)
    out, todo = set(), list(req)
    while todo:
        t = todo.pop()
        if t in out:
            continue
        out.add(t)
        if t not in cached:
            todo += deps[t - 1]
    return out


def req_lists(n: int, deps: list, mode: str) -> Iterator[list]:
    """Requested lists. 'roots': the tasks nothing depends on; 'subsets': every non-empty
    subset in ascending and descending order; 'rich': subsets plus a duplicate."""
    tasks = list(range(1, n + 1))
    if mode == 'roots':
        dependents = {d for ds in deps for d in ds}
        yield [t for t in tasks if t not in dependents]
        return
    seen = set()
    for s in subsets(tasks):
        if not s:
            continue
        for cand in (s, list(reversed(s))):
            if tuple(cand) not in seen:
                seen.add(tuple(cand))
                yield cand
        if mode == 'rich' and len(s) >= 1:
            cand = s + [s[0]]
            if tuple(cand) not in seen:
                seen.add(tuple(cand))
                yield cand


def mk(n, deps, typ, maxpar, tcache, cached0, req, backend, maxw, cof=True, bust=False, fail=(), storage=True, badload=()):
    return dict(n=n, deps=[sorted(d) for d in deps], typ=list(typ), maxpar=list(maxpar), tcache=list(tcache),
                cached0=sorted(cached0), req=list(req), backend=backend, maxw=maxw, cof=bool(cof),
                bust=bool(bust), fail=sorted(fail), storage=bool(storage), badload=sorted(badload))


def family(n: int = 3, *, ntypes: int = 1, maxpars=(UNL,), maxws=(2,), backends=('fork',), cached='none',
           reqs='roots', cofs=(True,), busts=(False,), fails='none', tcache_opts=None,
           sample: int | None = None, seed: int = 0, nonempty_deps: bool = False,
           max_edges: int | None = None, badloads: str = 'none') -> list:
    """Enumerate (or sample) a configuration family.

    cached: 'none' | 'all-subsets'     fails: 'none' | 'singles' | 'all-subsets'
    """
    out = []
    for deps in dags(n):
        if nonempty_deps and not any(deps):
            continue
        if max_edges is not None and sum(len(d) for d in deps) > max_edges:
            continue
        for typ in type_assignments(n, ntypes):
            nty = max(typ)
            for maxpar in itertools.product(maxpars, repeat=nty):
                for tcache in (tcache_opts or [tuple([True] * nty)]):
                    tcache = tuple(tcache)[:nty]
                    cacheable = [t for t in range(1, n + 1) if tcache[typ[t - 1] - 1]]
                    for req in req_lists(n, deps, reqs):
                        cached_sets = [[]] if cached == 'none' else list(subsets(cacheable))
                        for c0 in cached_sets:
                            for bust in busts:
                                clo = sorted(closure(deps, req, c0, bust))
                                # a task that is cached beforehand has run successfully, and so have all the tasks nested in its
                                # parameters (a failing variant is a different parameter value, hence a different task)
                                under_cached = closure(deps, c0)
                                can_fail = [t for t in clo if t not in under_cached]
                                if fails == 'none':
                                    fail_sets = [[]]
                                elif fails == 'singles':
                                    fail_sets = [[]] + [[t] for t in can_fail]
                                else:
                                    fail_sets = list(subsets(can_fail))
                                for fl in fail_sets:
                                    for backend in backends:
                                        for maxw in (maxws if backend != 'serial' else maxws[:1]):
                                            for cof in cofs:
                                                bls = [[]] if badloads == 'none' or bust else [[]] + [[t] for t in c0 if t in clo]
                                                for bl in bls:
                                                    out.append(mk(n, deps, typ, maxpar, tcache, c0, req, backend,
                                                                  maxw, cof, bust, fl, badload=bl))
    if sample is not None and len(out) > sample:
        rnd = random.Random(seed)
        out = rnd.sample(out, sample)
    return out


def nontrivial(cfg: dict) -> bool:
    return any(cfg['deps']) or bool(cfg['fail']) or bool(cfg['cached0'])


def cfg_key(cfg: dict) -> str:
    import json
    return json.dumps(cfg, sort_keys=True, separators=(',', ':'))
