"""Run TLC and parse what it prints.

Everything that needs TLC goes through `run_tlc`: it starts the JVM with an
explicit heap, a private java.io.tmpdir (TLC unpacks its community modules
into a fresh /tmp/tlc-* directory on every start and leaves it behind) and a
private -metadir, copies the spec directory into the scratch so that TLC's
generated files never land in /verif, and returns statistics, PrintT lines and
the error kind.
"""
from __future__ import annotations

import json
import os
import re
import shutil
import subprocess
import time
from dataclasses import dataclass, field
from pathlib import Path
from typing import Optional

VERIF = Path(__file__).resolve().parent.parent
SPEC_DIR = VERIF / 'spec'
JAR = '/opt/veriftools/tla/tla2tools.jar'
DEPS = '/opt/veriftools/tla/CommunityModules-deps.jar'


class TLCMachineryError(Exception):
    """TLC could not decide (parse error, evaluation error, crash)."""


@dataclass
class TLCResult:
    rc: int
    wall_s: float
    out: str
    generated: int = 0
    distinct: int = 0
    depth: int = 0
    prints: list = field(default_factory=list)       # PrintT payloads (raw strings)
    violated: Optional[str] = None                   # name of violated invariant / property
    error: Optional[str] = None                      # machinery error text
    coverage: dict = field(default_factory=dict)     # action name -> (distinct, total)
    cex: str = ''                                    # counterexample text

    @property
    def ok(self) -> bool:
        return self.error is None and self.violated is None


_STATS = re.compile(r'(\d+) states generated, (\d+) distinct states found')
_DEPTH = re.compile(r'The depth of the complete state graph search is (\d+)')
_INV = re.compile(r'Invariant (\S+) is violated')
_PROP = re.compile(r'Action property (\S+) is violated|Temporal properties were violated|'
                   r'Temporal property (\S+) was violated|property (\S+) is violated')
_COV = re.compile(r'^<(\w+) line \d+, col \d+ to line \d+, col \d+ of module (\w+)>: (\d+):(\d+)', re.M)


def run_tlc(module: str, cfg: str, *, scratch: Path, workers: int | str = 'auto',
            heap: str = '6g', env: Optional[dict] = None, extra: Optional[list] = None,
            timeout: Optional[float] = None, coverage: bool = False,
            simulate: Optional[str] = None, depth: Optional[int] = None,
            deadlock: bool = False, seed: Optional[int] = None,
            jvm_props: Optional[list] = None, tag: str = '', cfg_text: Optional[str] = None) -> TLCResult:
    """Run TLC on spec/<module>.tla with spec/<cfg> inside `scratch`."""
    scratch = Path(scratch)
    work = scratch / f'tlc_{module}_{tag}_{int(time.time() * 1000) % 10 ** 9}_{os.getpid()}_{id(env) % 100000}'
    work.mkdir(parents=True, exist_ok=True)
    for p in SPEC_DIR.iterdir():
        if p.suffix in ('.tla', '.cfg'):
            shutil.copy(p, work / p.name)
    if cfg_text is not None:
        (work / cfg).write_text(cfg_text)
    tmpd = work / 'jtmp'
    tmpd.mkdir(exist_ok=True)
    cmd = ['java', '-XX:+UseParallelGC', f'-Xmx{heap}', f'-Djava.io.tmpdir={tmpd}']
    for p in jvm_props or []:
        cmd.append(p)
    cmd += ['-cp', f'{JAR}:{DEPS}', 'tlc2.TLC', '-metadir', str(work / 'meta'),
            '-noGenerateSpecTE', '-workers', str(workers), '-config', cfg]
    if not deadlock:
        cmd += ['-deadlock']          # -deadlock *disables* deadlock checking
    if coverage:
        cmd += ['-coverage', '1']
    if simulate is not None:
        cmd += ['-simulate', simulate]
    if depth is not None:
        cmd += ['-depth', str(depth)]
    if seed is not None:
        cmd += ['-seed', str(seed)]
    cmd += (extra or [])
    cmd += [module + '.tla']
    e = dict(os.environ)
    e.pop('JAVA_TOOL_OPTIONS', None)
    if env:
        e.update({k: str(v) for k, v in env.items()})
    t0 = time.time()
    try:
        p = subprocess.run(cmd, cwd=work, env=e, stdout=subprocess.PIPE, stderr=subprocess.STDOUT,
                           text=True, timeout=timeout)
        out, rc = p.stdout, p.returncode
    except subprocess.TimeoutExpired as ex:
        out = (ex.stdout.decode() if isinstance(ex.stdout, bytes) else (ex.stdout or ''))
        rc = -9
    res = TLCResult(rc=rc, wall_s=time.time() - t0, out=out)
    m = None
    for m in _STATS.finditer(out):
        pass
    if m:
        res.generated, res.distinct = int(m.group(1)), int(m.group(2))
    m = _DEPTH.search(out)
    if m:
        res.depth = int(m.group(1))
    res.prints = parse_prints(out)
    for m in _COV.finditer(out):
        res.coverage[m.group(1)] = (int(m.group(3)), int(m.group(4)))
    m = _INV.search(out)
    if m:
        res.violated = m.group(1)
    else:
        m = _PROP.search(out)
        if m:
            res.violated = m.group(1) or m.group(2) or m.group(3) or 'temporal'
    if res.violated:
        i = out.find('Error:')
        res.cex = out[i:i + 20000]
    if rc == -9:
        res.error = 'timeout'
    elif res.violated is None and rc != 0:
        # 10/11/12/13 = violation codes; others are errors
        res.error = _first_error(out) or f'TLC exit code {rc}'
    elif res.violated is None and 'Error:' in out and 'Model checking completed. No error' not in out \
            and simulate is None:
        res.error = _first_error(out)
    shutil.rmtree(work, ignore_errors=True)
    return res


def _first_error(out: str) -> str:
    i = out.find('Error:')
    if i < 0:
        i = out.find('error')
    return out[i:i + 3000] if i >= 0 else out[-3000:]


def parse_prints(out: str) -> list:
    """PrintT of a string prints it with quotes on one line; we only ever print
    strings that start with a marker '@@' so that they are easy to find."""
    res = []
    for line in out.splitlines():
        line = line.strip()
        if line.startswith('"@@') and line.endswith('"'):
            res.append(_unescape(line[1:-1])[2:])
    return res


def _unescape(s: str) -> str:
    return s.replace('\\"', '"').replace('\\\\', '\\')


def sany(module: str, scratch: Path) -> str:
    work = Path(scratch) / f'sany_{module}'
    work.mkdir(parents=True, exist_ok=True)
    for p in SPEC_DIR.iterdir():
        if p.suffix == '.tla':
            shutil.copy(p, work / p.name)
    p = subprocess.run(['java', f'-Djava.io.tmpdir={work}', '-cp', f'{JAR}:{DEPS}', 'tla2sany.SANY', module + '.tla'], cwd=work,
                       stdout=subprocess.PIPE, stderr=subprocess.STDOUT, text=True)
    shutil.rmtree(work, ignore_errors=True)
    return p.stdout


def dump_json(path: Path, obj) -> None:
    with open(path, 'w') as f:
        json.dump(obj, f, separators=(',', ':'))


def dump_ndjson(path: Path, objs) -> None:
    with open(path, 'w') as f:
        for o in objs:
            f.write(json.dumps(o, separators=(',', ':')))
            f.write('\n')


def compact_cex(cex: str, skip=('cfg',)) -> str:
    """Render a TLC counterexample as action names plus the variables that changed."""
    states = re.split(r'\nState (\d+): ', '\n' + cex)
    out, prev = [], {}
    head = states[0].strip().splitlines()[:2]
    out += head
    for i in range(1, len(states), 2):
        body = states[i + 1]
        first, _, rest = body.partition('\n')
        cur = {}
        for m in re.finditer(r'^/\\ (\w+) = (.*?)(?=^/\\ \w+ = |\Z)', rest, re.M | re.S):
            cur[m.group(1)] = ' '.join(m.group(2).split())
        name = re.sub(r' line.*', '', first.strip('<>'))
        ch = [f'{k}={v}' for k, v in cur.items() if prev.get(k) != v and (k not in skip or not prev)]
        out.append(f'{states[i]}: {name}: ' + '; '.join(ch))
        prev = cur
    return '\n'.join(out)
