"""Command line of the checks: ./check Cxx --tier quick|thorough ; ./check --replay <file>."""
from __future__ import annotations

import argparse
import os
import sys
import traceback


def main() -> int:
    ap = argparse.ArgumentParser()
    ap.add_argument('prop', nargs='?')
    ap.add_argument('--tier', default=os.environ.get('VERIF_TIER', 'quick'), choices=['quick', 'thorough'])
    ap.add_argument('--replay')
    ap.add_argument('--selftest', action='store_true')
    ap.add_argument('--growth', action='store_true')
    a = ap.parse_args()
    try:
        if a.growth:
            from lv.checks import growth
            return growth.main()
        if a.selftest:
            from lv import selftest
            return selftest.main()
        if a.replay:
            from lv import replay
            return replay.main(a.replay)
        from lv.checks import REGISTRY
        if a.prop not in REGISTRY:
            print(f'unknown property {a.prop}')
            return 2
        return REGISTRY[a.prop](a.prop, a.tier)
    except Exception:   # noqa
        traceback.print_exc()
        print('MACHINERY: the check itself failed (exit 2); this is not a verdict')
        return 2


if __name__ == '__main__':
    sys.exit(main())
