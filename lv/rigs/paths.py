"""Replay LocalPaths cases on the real LocalStorage inside a sandbox and record every path touched (C18).

usage: python -m lv.rigs.paths <jobs.json> <out.ndjson>
job = {"id", "cases": [{"op", "key": [tokens], "fn": [tokens], "mode", "err", "touched"}, ...]}
For every case a fresh copy of the layout of spec/LocalPaths.tla is built under a scratch base directory; an
audit hook records every open / mkdir / remove / rename / symlink / listdir the operation performs (scoped to the operation itself),
and a before/after snapshot of the whole base records effects.  Paths are reported relative to the base, as
sequences of names, after os.path.realpath.
"""
from __future__ import annotations

import json
import os
import shutil
import sys
import tempfile
import traceback
from pathlib import Path

ARMED = [False]
EVENTS: list = []
WATCH = {'open', 'os.mkdir', 'os.remove', 'os.rmdir', 'os.rename', 'os.symlink', 'os.link', 'os.truncate', 'os.chmod',
         'shutil.rmtree', 'os.listdir', 'os.scandir', 'os.utime'}


def _hook(event, args):
    if ARMED[0] and event in WATCH:
        EVENTS.append((event, args))


sys.addaudithook(_hook)


def build_layout(base: Path):
    S, out = base / 'S', base / 'out'
    (S / 'k1' / 'sub').mkdir(parents=True)
    (S / 'k2').mkdir()
    out.mkdir()
    (out / 'od').mkdir()
    (out / 'secret').write_text('secret')
    for f in ('f', 'f2'):
        (S / 'k1' / f).write_text(f)
    (S / 'k1' / 'sub' / 'h').write_text('h')
    (S / 'k2' / 'g').write_text('g')
    (S / 'file0').write_text('file0')
    (S / '.gitignore').write_text('*\n')
    os.symlink(out / 'secret', S / 'k1' / 'lnout')
    os.symlink(S / 'k1' / 'f2', S / 'k1' / 'lnsib')
    os.symlink(Path('..') / 'k2' / 'g', S / 'k1' / 'lnk2')
    os.symlink(out / 'ghost', S / 'k1' / 'lndang')
    os.symlink(out, S / 'lkout')
    os.symlink('k2', S / 'lksib')
    os.symlink(base / 'none', S / 'ldang')
    (base / 'S2' / 'res').mkdir(parents=True)          # a sibling whose name has the storage directory's name as a prefix
    (base / 'S2' / 'res' / 'p').write_text('p')
    os.symlink(base / 'S2' / 'res', S / 'lkpre')


def snapshot(base: Path) -> dict:
    snap = {}
    for root, dirs, files in os.walk(base, followlinks=False):
        for n in dirs + files:
            p = Path(root) / n
            rel = tuple(p.relative_to(base).parts)
            if p.is_symlink():
                snap[rel] = ('link', os.readlink(p))
            elif p.is_dir():
                snap[rel] = ('dir', p.stat().st_mode)            # (permission bits are part of what must not be touched)
            else:
                st = p.stat()
                snap[rel] = ('file', p.read_bytes(), st.st_mtime_ns, st.st_mode)
    return snap


def token_string(tokens, base: Path) -> str:
    absmap = {'ABS_SECRET': str(base / 'out' / 'secret'), 'ABS_F': str(base / 'S' / 'k1' / 'f'), 'ABS_OUT': str(base / 'out')}
    return ''.join(absmap.get(t, t) for t in tokens)


def relparts(path, base: Path, dir_fd_root=None):
    """realpath of an audited path, relative to the base ('base', ...) or ('<outside>', absolute)."""
    try:
        p = os.fspath(path)
    except TypeError:
        return None
    if isinstance(p, bytes):
        p = p.decode('utf-8', 'replace')
    if not os.path.isabs(p):
        return None
    # the parent is resolved (symlinks followed), the last component is kept: the operation acts on that entry
    parent, name = os.path.split(p.rstrip('/')) if p != '/' else ('/', '')
    rp = os.path.join(os.path.realpath(parent), name)
    try:
        rel = Path(rp).relative_to(os.path.realpath(base))
        return ['base'] + list(rel.parts)
    except ValueError:
        return ['<outside>', rp]


def run_case(case, root: Path):
    import labtech
    from labtech.storage import LocalStorage
    base = Path(tempfile.mkdtemp(prefix='b_', dir=root)) / 'base'
    base.mkdir()
    build_layout(base)
    storage = LocalStorage(base / 'S', with_gitignore=False)
    key = token_string(case['key'], base)
    fn = token_string(case['fn'], base)
    op = case['op']
    if op.startswith('mut:'):
        # use the key while it is harmless -- absent, then a real directory -- then replace its name by a symlink to the
        # outside directory (same process, same storage directory), then perform the operation under observation
        op = op[4:]
        try:
            storage.exists(key)
            with storage.file_handle(key, 'warm', mode='w') as h:
                h.write('x')
            storage.exists(key)
            LocalStorage(base / 'S', with_gitignore=False).exists(key)
        except BaseException:   # noqa
            pass
        shutil.rmtree(base / 'S' / key, ignore_errors=True)
        os.symlink(base / 'out', base / 'S' / key)
    before = snapshot(base.parent)
    del EVENTS[:]
    err = ''
    ARMED[0] = True
    try:
        if op == 'exists':
            storage.exists(key)
        elif op == 'delete':
            storage.delete(key)
        else:
            h = storage.file_handle(key, fn, mode=case['mode'])
            try:
                if any(c in case['mode'] for c in 'wax+'):
                    h.write(b'W' if 'b' in case['mode'] else 'W')
                else:
                    h.read()
            finally:
                h.close()
    except BaseException as ex:   # noqa
        err = type(ex).__name__
    finally:
        ARMED[0] = False
    events = list(EVENTS)
    after = snapshot(base.parent)
    touched = set()
    opened_outside = []
    for ev, args in events:
        if ev in ('os.listdir', 'os.scandir'):
            continue
        if ev == 'open':
            path, mode, flags = args[0], args[1], args[2]
            if isinstance(path, int):
                continue
            rp = relparts(path, base)
        else:
            rp = relparts(args[0], base) if args else None
        if rp is None:
            continue
        if rp[0] == '<outside>':
            opened_outside.append(rp[1])
        touched.add(tuple(rp))
    # effects seen in the snapshots (created / removed / changed entries), following nothing
    for rel in set(before) | set(after):
        if before.get(rel) != after.get(rel):
            touched.add(tuple(rel))
    res = {'id': case['id'], 'op': case['op'], 'key': case['key'], 'fn': case['fn'], 'mode': case['mode'],
           'err': bool(err), 'exc': err, 'touched': sorted(list(t) for t in touched),
           'model_err': case['err'], 'model_touched': sorted(case['touched'])}
    shutil.rmtree(base.parent, ignore_errors=True)
    return res


def main():
    jobs = json.load(open(sys.argv[1]))
    root = Path(tempfile.mkdtemp(prefix='paths_', dir=os.environ.get('TMPDIR')))
    with open(sys.argv[2], 'w') as out:
        for job in jobs:
            try:
                for k, case in enumerate(job['cases']):
                    case = dict(case, id=f'{job["id"]}-{k}')
                    r = run_case(case, root)
                    r['tid'] = r['id']
                    out.write(json.dumps(r, separators=(',', ':')) + '\n')
            except BaseException as ex:   # noqa
                out.write(json.dumps({'tid': job['id'], 'error': ''.join(traceback.format_exception(type(ex), ex, ex.__traceback__))[-3000:]}) + '\n')
    shutil.rmtree(root, ignore_errors=True)


if __name__ == '__main__':
    main()
