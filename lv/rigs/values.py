"""Replay the TaskValues grammar on the real code (C07, C09, C15).

usage: python -m lv.rigs.values <jobs.json> <out.ndjson>
       python -m lv.rigs.values --keys <cases.json> <out.json>      (fresh interpreter: recompute cache keys)

A job = {"id", "cases": [[type name, raw node], ...], "protocols": [...], "hashseeds": [...]}.
Output: one observation per case, plus one "listing" record per job (what cached_tasks returned per type).
Nodes are the tag-first trees of spec/TaskValues.tla: [kind, atom, [children]].
"""
from __future__ import annotations

import copy
import dataclasses
import json
import os
import pickle
import subprocess
import sys
import tempfile
import shutil
import traceback
from enum import Enum
from pathlib import Path


SPEC_TO_REAL = {'m1.T': 'lv.universe.tv_m1.T', 'me.E1': 'lv.universe.tv_enums.E1'}
REAL_TO_SPEC = {v: k for k, v in SPEC_TO_REAL.items()}


def _types():
    from lv.universe import tv_m1, tv_m2
    return {'m1.T': tv_m1.T, 'm2.T': tv_m2.T, 'm1.TX': tv_m1.TX, 'm1.TSub': tv_m1.TSub, 'm1.T_': tv_m1.T_, 'm1.T__V': tv_m1.T__V,
            'm1.M5': tv_m1.M5, 'm1.TE': tv_m1.TE}


def _mk(cls, value):
    """An instance of a grammar type whose varying parameter is `value`.  For the extended type TE (a task type that
    subclasses the task type T and adds a parameter of its own) the varying parameter is the added one."""
    if cls.__qualname__ == 'TE':
        return cls(f1=1, f2=value)
    return cls(f1=value)


def _var(task):
    return task.f2 if type(task).__qualname__ == 'TE' else task.f1


def _tname(cls):
    return {'lv.universe.tv_m1': 'm1', 'lv.universe.tv_m2': 'm2'}.get(cls.__module__, cls.__module__) + '.' + cls.__qualname__


def to_py(node):
    from frozendict import frozendict
    from lv.universe import tv_enums
    k, a, c = node
    if k == 'none':
        return None
    if k == 'str':
        return SPEC_TO_REAL.get(a, a)     # class paths written out by hand inside parameter dicts
    if k == 'bool':
        return a == 'True'
    if k == 'int':
        return int(a)
    if k == 'float':
        return float(a)
    if k == 'enum':
        return _enum_member(a)
    if k in ('list', 'tuple'):
        items = [to_py(x) for x in c]
        return items if k == 'list' else tuple(items)
    if k in ('dict', 'fdict'):
        d = {}
        for i in range(0, len(c), 2):
            d[to_py(c[i])] = to_py(c[i + 1])
        return d if k == 'dict' else frozendict(d)
    if k == 'task':
        return _mk(_types()[a], to_py(c[0]))
    if k == 'set':
        return {1}
    if k == 'bytes':
        return b'b'
    if k == 'obj':
        return object()
    raise ValueError(k)


def _enum_member(atom):
    """'me.E1.A' / 'me.Holder.E5.A' -> the member (the class may be nested in another class)."""
    from lv.universe import tv_enums
    parts = atom.split('.')
    obj = tv_enums
    for name in parts[1:-1]:
        obj = getattr(obj, name)
    return obj[parts[-1]]


def from_py(v):
    from frozendict import frozendict
    from labtech.types import is_task
    if v is None:
        return ['none', 'None', []]
    if isinstance(v, bool):
        return ['bool', str(v), []]
    if isinstance(v, Enum):
        return ['enum', f'me.{type(v).__qualname__}.{v.name}', []]
    if isinstance(v, str):
        return ['str', REAL_TO_SPEC.get(v, v), []]
    if isinstance(v, int):
        return ['int', str(v), []]
    if isinstance(v, float):
        return ['float', repr(v), []]
    if is_task(v):
        return ['task', _tname(type(v)), [from_py(getattr(v, f.name)) for f in dataclasses.fields(v)]]
    if isinstance(v, tuple):
        return ['tuple', '', [from_py(x) for x in v]]
    if isinstance(v, list):
        return ['list', '', [from_py(x) for x in v]]
    if isinstance(v, (dict, frozendict)):
        kids = []
        for kk, vv in v.items():
            kids += [from_py(kk), from_py(vv)]
        return ['fdict' if isinstance(v, frozendict) else 'dict', '', kids]
    return ['obj', type(v).__name__, []]


def kc(node):
    """KC of TaskTrees.tla: the same tree with every dict key reduced to its string content (a member of a str-mixin enum
    used as a key IS that string: metadata holds the content, and the reconstructed task is equal to the original)."""
    from lv.universe import tv_enums
    k, a, c = node
    if k in ('dict', 'fdict'):
        kids = []
        for i, x in enumerate(c):
            if i % 2 == 0 and x[0] == 'enum':
                v = _enum_member(x[1])
                kids.append(['str', str.__str__(v), []] if isinstance(v, str) else x)
            else:
                kids.append(kc(x) if i % 2 else x)
        return [k, a, kids]
    return [k, a, [kc(x) for x in c]]


def json_to_node(j):
    """serialize_task output (plain JSON data) as a j-node tree, class names mapped to the spec's names."""
    if j is None:
        return ['jnone', 'None', []]
    if isinstance(j, bool):
        return ['jbool', str(j), []]
    if isinstance(j, str):
        for long, short in (('lv.universe.tv_m1.', 'm1.'), ('lv.universe.tv_m2.', 'm2.'), ('lv.universe.tv_enums.', 'me.')):
            if j.startswith(long):
                j = short + j[len(long):]
        return ['jstr', j, []]
    if isinstance(j, int):
        return ['jint', str(j), []]
    if isinstance(j, float):
        return ['jfloat', repr(j), []]
    if isinstance(j, list):
        return ['jlist', '', [json_to_node(x) for x in j]]
    if isinstance(j, dict):
        kids = []
        for kk, vv in j.items():
            kids += [['jstr', kk, []], json_to_node(vv)]
        return ['jobj', '', kids]
    return ['jobj?', type(j).__name__, []]


def meta_tok(meta):
    if meta is None:
        return 'none'
    return f'{meta.start.isoformat() if meta.start is not None else None}|{meta.duration.total_seconds() if meta.duration is not None else None}'


def _mainv_post_init(self):
    object.__setattr__(self, 'derived', 'derived:' + repr(self.f1))


def _mainv_run(self):
    return 1


def _define_main_type():
    """A task type defined in the module run as the program (as in a user's script): a spawned interpreter re-imports it
    under another module name."""
    import labtech
    ns = {'__annotations__': {'f1': object}, 'run': _mainv_run, 'post_init': _mainv_post_init, '__module__': __name__,
          '__qualname__': 'MainV'}
    return labtech.task(type('MainV', (), ns))


try:
    MainV = _define_main_type()
except Exception:   # noqa
    MainV = None


def _probe(blob):
    """Runs in a spawned interpreter: unpickle a task and report what the copy looks like there."""
    from labtech.tasks import get_direct_dependencies
    cp = pickle.loads(blob)
    return {'key': cp.cache_key, 'derived': getattr(cp, 'derived', None), 'ctx_none': getattr(cp, 'context', 0) is None,
            'meta_none': getattr(cp, 'result_meta', 0) is None, 'no_results': getattr(cp, '_results_map', 0) is None and not hasattr(cp, '_result'),
            'deps': [d.cache_key for d in get_direct_dependencies(cp)], 'hashable': _hashable(cp)}


def _hashable(x):
    try:
        hash(x)
        return True
    except Exception:   # noqa
        return False


def cross_process(tasks: list) -> list:
    """Send pickled copies through a real process boundary (spawn start method)."""
    import multiprocessing
    from labtech.tasks import get_direct_dependencies
    ctx = multiprocessing.get_context('spawn')
    with ctx.Pool(1) as pool:
        got = pool.map(_probe, [pickle.dumps(t) for t in tasks])
    out = []
    for t, g in zip(tasks, got):
        out.append((bool(g['key'] == t.cache_key and g['derived'] == getattr(t, 'derived', None) and g['ctx_none'] and g['meta_none']
                         and g['no_results'] and g['hashable'] and g['deps'] == [d.cache_key for d in get_direct_dependencies(t)]),
                    g['key']))
    return out


def observe_case(cid, ty, raw, protocols, storage, lab):
    import labtech
    from labtech.exceptions import TaskError
    from labtech.serialization import Serializer
    from labtech.tasks import get_direct_dependencies
    cls = _types()[ty]
    o = {'id': cid, 'ty': ty, 'raw': raw}
    try:
        value = to_py(raw)
        task = _mk(cls, value)
    except TaskError as ex:
        o.update(accepted=False, exc='TaskError')
        return o, None
    except BaseException as ex:   # noqa
        o.update(accepted=False, exc=type(ex).__name__, msg=str(ex)[:200])
        return o, None
    o.update(accepted=True, exc='')
    o['norm'] = from_py(_var(task))
    # frozen
    try:
        task.f1 = 5
        o['frozen'] = False
    except dataclasses.FrozenInstanceError:
        o['frozen'] = True
    except BaseException:   # noqa
        o['frozen'] = True
    # equality / hashing against an independently built twin and against the other types
    twin = _mk(cls, to_py(copy.deepcopy(raw)))
    try:
        o['hashable'] = True
        h1, h2 = hash(task), hash(twin)
    except BaseException:   # noqa
        o['hashable'], h1, h2 = False, 0, 1
    o['eq_twin'] = bool(task == twin and twin == task and h1 == h2)
    others = [c for n, c in _types().items() if c is not cls]
    neq = True
    for c in others:
        try:
            neq = neq and (_mk(c, to_py(copy.deepcopy(raw))) != task)
        except BaseException:   # noqa
            pass
    o['neq_other_types'] = bool(neq)
    # keys
    key = task.cache_key
    o['key'] = key
    variants = {}
    variants['twin'] = twin.cache_key
    variants['rebuilt_from_normalised'] = _mk(cls, _var(task)).cache_key
    ser = Serializer()
    try:
        stask = ser.serialize_task(task)
        o['ser'] = json_to_node(stask)
        variants['reconstructed'] = ser.deserialize_task(json.loads(json.dumps(stask)), result_meta=None).cache_key
        o['recon_eq'] = bool(ser.deserialize_task(json.loads(json.dumps(stask)), result_meta=None) == task)
    except BaseException as ex:   # noqa
        variants['reconstructed'] = f'error:{type(ex).__name__}'
        o['recon_eq'] = False
        o.setdefault('ser', ['jnone', 'None', []])
    pk = {}
    for proto in protocols:
        try:
            cp = pickle.loads(pickle.dumps(task, protocol=proto))
            variants[f'pickle{proto}'] = cp.cache_key
            deps_same = [from_py(d) for d in get_direct_dependencies(cp)] == [from_py(d) for d in get_direct_dependencies(task)]
            derived_ok = (getattr(cp, 'derived', None) == getattr(task, 'derived', None))
            no_ctx = getattr(cp, 'context', None) is None and getattr(cp, 'result_meta', None) is None
            no_res = getattr(cp, '_results_map', None) is None and not hasattr(cp, '_result')
            attrs_present = all(hasattr(cp, a) for a in ('context', 'result_meta', '_results_map', 'cache_key'))
            pk[proto] = bool(cp == task and hash(cp) == hash(task) and deps_same and derived_ok and no_ctx and no_res
                             and attrs_present)
            if not pk[proto]:
                o.setdefault('pickle_detail', {})[str(proto)] = dict(eq=bool(cp == task), deps=deps_same, derived=derived_ok,
                                                                     no_ctx=no_ctx, no_res=no_res, attrs=attrs_present)
        except BaseException as ex:   # noqa
            variants[f'pickle{proto}'] = f'error:{type(ex).__name__}'
            pk[proto] = False
    o['pickle_ok'] = all(pk.values())
    o['variants'] = sorted([k, v] for k, v in variants.items())
    try:
        storage.exists(key)
        o['storage_accepts'] = True
    except BaseException as ex:   # noqa
        o['storage_accepts'] = False
    o['deps'] = [from_py(d) for d in get_direct_dependencies(task)]
    # C09: run it once so that it is cached (its dependencies get cached too)
    try:
        # marked with context and results while it runs: a pickled copy taken afterwards must not carry them
        lab.run_tasks([task], disable_progress=True, disable_top=True)
        o['ran'] = True
        o['meta'] = meta_tok(task.result_meta)
        cp = pickle.loads(pickle.dumps(task))
        o['pickle_after_run_clean'] = bool(getattr(cp, 'context', None) is None and getattr(cp, '_results_map', None) is None
                                           and not hasattr(cp, '_result'))
    except BaseException as ex:   # noqa
        o['ran'] = False
        o['meta'] = 'none'
        o['pickle_after_run_clean'] = True
        o['run_exc'] = f'{type(ex).__name__}: {ex}'[:200]
    return o, task


def run_job(job, base: Path):
    import labtech
    from lv.universe import tv_m1
    from lv.universe.faults import JsonFileCache
    d = Path(tempfile.mkdtemp(prefix='tv_', dir=base))
    storage = labtech.storage.LocalStorage(d / 'st')
    lab = labtech.Lab(storage=storage, context={'c': 1}, runner_backend='serial', notebook=False)
    out, tasks = [], {}
    # instances of every grammar type exist in the process before the cases are built (a base type before the types that
    # extend it, in particular)
    for _cls in _types().values():
        try:
            _mk(_cls, 0)
        except BaseException:   # noqa
            pass
    for k, (ty, raw) in enumerate(job['cases']):
        o, task = observe_case(f'{job["id"]}-{k}', ty, raw, job.get('protocols', [pickle.HIGHEST_PROTOCOL]), storage, lab)
        out.append(o)
        if task is not None and o.get('ran'):
            tasks[o['id']] = task
    # an entry of another cache format sharing the storage
    alien_cls = labtech.task(cache=JsonFileCache())(type('T', (), {'__annotations__': {'f1': object}, 'run': lambda self: 1,
                                                                   '__module__': 'lv.universe.tv_m1', '__qualname__': 'T'}))
    try:
        lab.run_tasks([alien_cls(f1=1)], disable_progress=True, disable_top=True)
    except BaseException:   # noqa
        pass
    # C15: copies crossing a real process boundary -- a sample of the grammar's tasks and tasks of the main-module type
    import random as _r
    sample_ids = sorted(tasks)
    _r.Random(len(sample_ids)).shuffle(sample_ids)
    sample_ids = sample_ids[:job.get('crossproc', 40)]
    mains = [MainV(f1=v) for v in (1, 'a', (1, 2), {'k': 1})] + [MainV(f1=[tasks[i]]) for i in sample_ids[:3]]
    res = cross_process([tasks[i] for i in sample_ids] + mains)
    by_id = {o['id']: o for o in out}
    for i, (ok, key_there) in zip(sample_ids, res):
        by_id[i]['pickle_ok'] = bool(by_id[i]['pickle_ok'] and ok)
        by_id[i]['variants'] = by_id[i]['variants'] + [['pickled_into_spawned_interpreter', key_there]]
        if not ok:
            by_id[i].setdefault('pickle_detail', {})['spawned_interpreter'] = False
    for k, (ok, key_there) in enumerate(res[len(sample_ids):]):
        # reported on an extra observation of the grammar's simplest case so that the judge (TaskValuesObs) sees it
        o = dict(next(x for x in out if x['accepted']))
        o.update(id=f'{job["id"]}-main{k}', tid=f'{job["id"]}-main{k}', pickle_ok=bool(ok), key=mains[k].cache_key,
                 variants=[['pickled_into_spawned_interpreter', key_there]], listed_own=1, listed_elsewhere=0,
                 listed_key_ok=True, listed_meta_ok=True, listed_loads_stored=True, ran=True, main_module_type=True)
        out.append(o)
    # fresh-interpreter keys
    cases_file = d / 'cases.json'
    json.dump([[o['ty'], o['raw']] for o in out if o['accepted'] and not o.get('main_module_type')], open(cases_file, 'w'))
    fresh = {}
    for hs in job.get('hashseeds', [7]):
        env = dict(os.environ)
        env['PYTHONHASHSEED'] = str(hs)
        outf = d / f'keys_{hs}.json'
        p = subprocess.run([sys.executable, '-m', 'lv.rigs.values', '--keys', str(cases_file), str(outf)], env=env,
                           capture_output=True, text=True, timeout=600)
        if p.returncode != 0:
            raise RuntimeError(f'key recomputation failed: {p.stderr[-1500:]}')
        fresh[hs] = json.load(open(outf))
    acc = [o for o in out if o['accepted'] and not o.get('main_module_type')]
    for i, o in enumerate(acc):
        o['variants'] += sorted([f'fresh_interpreter_hashseed{hs}', fresh[hs][i]] for hs in fresh)
    # cached_tasks per type over the shared storage
    runs_before = dict(tv_m1.RUNS)
    listing = {}
    for name, cls in _types().items():
        try:
            listing[name] = lab.cached_tasks([cls])
        except BaseException as ex:   # noqa
            listing[name] = []
            out.append({'id': f'{job["id"]}-listing-{name}', 'listing_error': f'{type(ex).__name__}: {ex}'[:300], 'ty': name})
    for o in acc:
        task = tasks.get(o['id'])
        if task is None:
            continue
        tree = kc(from_py(task))   # strict identity: 1, 1.0 and True are different parameter values (dict keys: by content)
        cnt = {name: sum(1 for x in lst if type(x) is type(task) and x == task and kc(from_py(x)) == tree) for name, lst in listing.items()}
        loose = {name: sum(1 for x in lst if kc(from_py(x)) == tree) for name, lst in listing.items()}
        o['listed_own'] = cnt[o['ty']]
        o['listed_elsewhere'] = sum(v for n, v in loose.items() if n != o['ty'])
        match = [x for x in listing[o['ty']] if type(x) is type(task) and x == task and kc(from_py(x)) == tree]
        # C07: the key of the task as reconstructed from cache metadata (matched by plain equality)
        eqs = [x for x in listing[o['ty']] if type(x) is type(task) and x == task]
        if eqs:
            o['variants'] = o['variants'] + [['from_cache_metadata', min(eqs, key=lambda x: x.cache_key != task.cache_key).cache_key
                                              if len(eqs) > 1 else eqs[0].cache_key]]
        o['listed_key_ok'] = bool(match and match[0].cache_key == task.cache_key)
        o['listed_meta_ok'] = bool(match and meta_tok(match[0].result_meta) == o['meta'])
        if match:
            try:
                before = dict(tv_m1.RUNS)
                lab2 = labtech.Lab(storage=storage, context={'c': 2}, runner_backend='serial', notebook=False)
                res = lab2.run_tasks([match[0]], disable_progress=True, disable_top=True)
                o['listed_loads_stored'] = bool(tv_m1.RUNS == before and res[match[0]] == ['tv', type(task).__qualname__, repr(_var(task))])
            except BaseException as ex:   # noqa
                o['listed_loads_stored'] = False
        else:
            o['listed_loads_stored'] = False
    # entries rewritten after they were listed: a sample of the tasks is executed again (bust_cache) by forked workers and
    # listed once more -- the listing must show the outcome that is stored now, not the one read before
    o_by_task = [(o, tasks[o['id']]) for o in acc if tasks.get(o['id']) is not None and o.get('listed_own') == 1]
    sample = o_by_task[:: max(1, len(o_by_task) // 12)][:12]
    if sample:
        try:
            labf = labtech.Lab(storage=storage, context={'c': 3}, runner_backend='fork', max_workers=2, notebook=False)
            fresh_objs = [_mk(type(t), _var(t)) for _o, t in sample]
            for (o, t), f in zip(sample, fresh_objs):
                # one call each: tasks that are equal in Python (1 / 1.0 / True) must not share a call; and listed at once:
                # a later call of the sample may execute this task again as one of its dependencies (bust_cache)
                labf.run_tasks([f], bust_cache=True, disable_progress=True, disable_top=True)
                name = o['ty']
                relisted = lab.cached_tasks([_types()[name]])
                tree = kc(from_py(t))
                m = [x for x in relisted if type(x) is type(t) and x == t and kc(from_py(x)) == tree]
                o['relisted_meta_ok'] = bool(m and f.result_meta is not None and meta_tok(m[0].result_meta) == meta_tok(f.result_meta))
                if not o['relisted_meta_ok']:
                    o['relist_detail'] = [len(m), [meta_tok(x.result_meta) for x in m[:3]], meta_tok(f.result_meta), f.cache_key, t.cache_key]
        except BaseException as ex:   # noqa
            for o, _t in sample:
                o['relisted_meta_ok'] = False
                o['relist_exc'] = f'{type(ex).__name__}: {ex}'[:200]
    # foreign entries: every listed object must be of the queried type
    for name, lst in listing.items():
        bad = [repr(x)[:80] for x in lst if type(x) is not _types()[name]]
        try:
            twice = lab.cached_tasks([_types()[name], _types()[name]])       # a type named twice is still one type
        except BaseException:   # noqa
            twice = lst
        out.append({'id': f'{job["id"]}-listing-{name}', 'ty': name, 'listing_foreign': len(bad), 'listing_total': len(lst),
                    'listing_dups': (len(lst) - len({(type(x).__qualname__, x.cache_key) for x in lst}))
                    + (len(twice) - len({(type(x).__qualname__, x.cache_key) for x in twice})), 'foreign_sample': bad[:3]})
    shutil.rmtree(d, ignore_errors=True)
    return out


def keys_main(cases_file, out_file):
    cases = json.load(open(cases_file))
    keys = [None] * len(cases)
    # the fresh interpreter builds the tasks in the opposite order: a key must not depend on what was built before
    for i in reversed(range(len(cases))):
        ty, raw = cases[i]
        try:
            keys[i] = _mk(_types()[ty], to_py(raw)).cache_key
        except BaseException as ex:   # noqa
            keys[i] = f'error:{type(ex).__name__}'
    json.dump(keys, open(out_file, 'w'))


def main():
    if sys.argv[1] == '--keys':
        keys_main(sys.argv[2], sys.argv[3])
        return
    jobs = json.load(open(sys.argv[1]))
    base = Path(tempfile.mkdtemp(prefix='tvbase_', dir=os.environ.get('TMPDIR')))
    with open(sys.argv[2], 'w') as out:
        for job in jobs:
            try:
                res = run_job(job, base)
            except BaseException as ex:   # noqa
                res = [{'tid': job['id'], 'error': ''.join(traceback.format_exception(type(ex), ex, ex.__traceback__))[-3000:]}]
            for r in res:
                r.setdefault('tid', r.get('id'))
                out.write(json.dumps(r, separators=(',', ':')) + '\n')
    shutil.rmtree(base, ignore_errors=True)


if __name__ == '__main__':
    main()
