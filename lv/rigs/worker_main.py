"""Subprocess entry point of the in-process rigs: run a list of jobs, write one line per execution.

usage: python -m lv.rigs.worker_main <jobs.json> <out.ndjson>

A job: {"id", "cfg", "schedule", "shape_seed", "beh", "int_lines", "count_lines", "rig": "virt"}
An output line: {"tid", "cfg", "ev", "meta": {...}, "raw": [...] (only if job["keep_raw"])}
or {"tid", "error": "..."} when the rig itself failed (machinery error, not a verdict).
"""
from __future__ import annotations

import json
import os
import sys
import traceback


def ctxkeys_for(cfg):
    from lv.universe import types as U
    from lv.rigs import driver as D
    keys = D.lab_context(1, cfg['n'])
    return [U.expected_ctx_keys(cfg['typ'][t - 1], t, keys) for t in range(1, cfg['n'] + 1)]


def run_job(job):
    from lv import monitor
    from lv.rigs.virt import VirtRig
    cfg = job['cfg']
    os.environ['LV_EMPTY_CTX'] = ','.join(str(t) for t in job.get('empty_ctx') or [])
    storage, tmpd = None, None
    if job.get('local_storage') and cfg['storage']:
        # the real LocalStorage instead of the in-memory one (slower; used where the storage's own code matters)
        import tempfile
        import labtech
        tmpd = tempfile.mkdtemp(prefix='ls_', dir=os.environ.get('TMPDIR'))
        storage = labtech.storage.LocalStorage(os.path.join(tmpd, 'st'))
    rig = VirtRig(cfg, job.get('schedule') or [], shape_seed=job.get('shape_seed', 0), beh=_beh(job.get('beh')),
                  int_lines=job.get('int_lines'), count_lines=job.get('count_lines', False), storage=storage,
                  prior=job.get('prior'), progress=job.get('progress', False))
    rig.ctx_fail = bool(job.get('ctx_fail') or job.get('prior_abort'))
    rig.prior_abort = job.get('prior_abort')
    rig.prior_rebind = bool(job.get('prior_rebind'))
    try:
        trace = rig.run()
    finally:
        if tmpd:
            import shutil
            shutil.rmtree(tmpd, ignore_errors=True)
    out = monitor.to_monitor(job['id'], cfg, trace, caller_pid=os.getpid(), ctxkeys=ctxkeys_for(cfg), tnames=rig.tnames)
    out['meta'] = {'skipped': rig.skipped, 'defaulted': rig.defaulted, 'lines': rig.line_count, 'sites': rig.line_sites,
                   'ints': rig.ints_done, 'events': len(trace), 'setup_failed': rig.setup_failed,
                   'ctor': sorted(set(rig.process_ctor_methods)), 'ctxm': sorted(set(m or '' for m in rig.ctx_methods))}
    if job.get('keep_raw'):
        out['raw'] = trace
        out['dep_order'] = rig.dep_order
    return out


def run_sweep(job):
    """Line-boundary interrupt injection: one counting run, then one run per chosen boundary
    (all of them, or a seeded sample), each with a KeyboardInterrupt raised at that boundary of the
    calling thread inside labtech.  With job["double"], a second interrupt follows at a later boundary."""
    import random
    base = dict(job)
    base['count_lines'] = True
    base.pop('sweep', None)
    first = run_job(base)
    total = first['meta']['lines']
    rnd = random.Random(job.get('seed', 0))
    ks = list(range(1, total + 1))
    want = job['sweep']
    if want != 'all' and len(ks) > want:
        # every source line that the calling thread executes inside labtech gets an interrupt at its first and at its
        # last execution; the rest of the budget is a random sample of the remaining boundaries
        first_at, last_at = {}, {}
        for k, site in enumerate(first_sites(first), 1):
            first_at.setdefault(site, k)
            last_at[site] = k
        must = set(first_at.values()) | set(last_at.values())
        rest = [k for k in ks if k not in must]
        ks = sorted(must | set(rnd.sample(rest, min(len(rest), want))))
    out = []
    for k in ks:
        j = dict(base)
        j['count_lines'] = False
        j['id'] = f'{job["id"]}-L{k}'
        j['int_lines'] = [k]
        if job.get('double'):
            j['int_lines'] = [k, k + rnd.randrange(1, 60)]
            j['id'] += f'+{j["int_lines"][1] - k}'
        r = run_job(j)
        r['job'] = j
        out.append(r)
    return out


def first_sites(res):
    return [tuple(x) for x in res['meta'].get('sites') or []]


def _beh(b):
    if not b:
        return None
    return {int(k): v for k, v in b.items()}


JOB_HARD_LIMIT_S = 420       # a single job (a sweep: all its runs) that cannot be brought down by the rig's own watchdogs


def _hard_limit(state):
    """Watchdog thread: if one job blocks this process beyond any reasonable time, report it as a rig failure and leave
    (the harness turns that into a machinery error instead of waiting for its own, much longer, time limit)."""
    import threading
    import time

    def watch():
        while True:
            time.sleep(5)
            job, since, limit = state.get('job'), state.get('since'), state.get('limit', JOB_HARD_LIMIT_S)
            if job is not None and time.time() - since > limit:
                try:
                    with open(state['out'], 'a') as f:
                        f.write(json.dumps({'tid': job, 'error': f'rig job {job} exceeded the hard limit of {limit}s'}) + '\n')
                finally:
                    os._exit(3)
    threading.Thread(target=watch, daemon=True).start()


def main():
    import signal
    import time
    # this process plays the user's program: Ctrl-C raises KeyboardInterrupt in it, whatever disposition was inherited
    signal.signal(signal.SIGINT, signal.default_int_handler)
    jobs = json.load(open(sys.argv[1]))
    state = {'out': sys.argv[2]}
    _hard_limit(state)
    with open(sys.argv[2], 'w') as out:
        for job in jobs:
            state.update(job=job['id'], since=time.time(), limit=JOB_HARD_LIMIT_S * (6 if job.get('sweep') else 1))
            try:
                res = run_sweep(job) if job.get('sweep') else [run_job(job)]
            except BaseException as ex:   # noqa
                res = [{'tid': job['id'], 'error': ''.join(traceback.format_exception(type(ex), ex, ex.__traceback__))[-3000:]}]
            for r in res:
                out.write(json.dumps(r, separators=(',', ':')) + '\n')
            out.flush()


if __name__ == '__main__':
    main()
