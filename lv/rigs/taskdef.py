"""Replay the class definitions of spec/TaskDef.tla on the real decorator labtech.task.

usage: python -m lv.rigs.taskdef <jobs.json> <out.ndjson>     job = {"id", "cases": [case record, ...]}
"""
import dataclasses
import json
import sys


def build(case):
    import labtech
    from labtech.cache import PickleCache

    class InstCache(PickleCache):
        pass

    calls = []

    @labtech.task(cache=None, max_parallel=2)
    class Base:
        a: int

        def run(self):
            return 'base'

    body = {'__annotations__': {'x': int}, '__module__': __name__, '__qualname__': 'Case'}
    if case['run'] == 'method':
        body['run'] = lambda self: 'own'
    elif case['run'] == 'attr':
        body['run'] = 5
    if case['post']:
        body['post_init'] = lambda self: calls.append(1)
    if case['filt']:
        body['filter_context'] = lambda self, context: {'own': True}
    if case['reserved'] != 'none':
        body[case['reserved']] = (lambda self: None) if case['reserved'] in ('__post_init__', '_set_results_map', '_set_result_meta', 'set_context') else 7
    cls = type('Case', (Base,) if case['base'] == 'task' else (), body)
    kwargs = {}
    if case['cache'] == 'none':
        kwargs['cache'] = None
    elif case['cache'] == 'inst':
        kwargs['cache'] = InstCache()
    if case['maxpar'] != 'unset':
        kwargs['max_parallel'] = int(case['maxpar'])
    if case['form'] == 'bare':
        return labtech.task(cls), calls
    return labtech.task(**kwargs)(cls), calls


def observe(case):
    from labtech.exceptions import TaskError
    from labtech.types import is_task, is_task_type
    try:
        cls, calls = build(case)
    except (AttributeError, NotImplementedError) as ex:
        return {'err': type(ex).__name__}
    except BaseException as ex:   # noqa
        return {'err': f'other:{type(ex).__name__}'}
    got = {'err': ''}
    kw = {'x': 1, 'a': 0} if case['base'] == 'task' else {'x': 1}
    t, u = cls(**kw), cls(**kw)
    got['cache'] = type(cls._lt.cache).__name__
    got['maxpar'] = str(cls._lt.max_parallel)
    got['post_calls'] = len(calls) // 2           # two instances were built
    got['own_filter'] = t.filter_context({'a': 1}) == {'own': True}
    got['own_run'] = t.run() == 'own'
    try:
        t.x = 2
        got['frozen'] = False
    except dataclasses.FrozenInstanceError:
        got['frozen'] = True
    got['is_task_type'] = bool(is_task_type(cls))
    got['is_task'] = bool(is_task(t))
    got['eq_same'] = bool(t == u and hash(t) == hash(u))
    try:
        t.result
        got['result_before_run'] = 'value'
    except TaskError:
        got['result_before_run'] = 'TaskError'
    except BaseException as ex:   # noqa
        got['result_before_run'] = type(ex).__name__
    return got


def main():
    jobs = json.load(open(sys.argv[1]))
    with open(sys.argv[2], 'w') as out:
        for job in jobs:
            for k, case in enumerate(job['cases']):
                out.write(json.dumps({'tid': f'{job["id"]}-{k}', 'id': f'{job["id"]}-{k}', 'case': case, 'got': observe(case)}) + '\n')


if __name__ == '__main__':
    main()
