"""Replay call sequences of spec/FutureFSM.tla on the real labtech.runners.process.Future.

usage: python -m lv.rigs.future <jobs.json> <out.ndjson>     job = {"id", "seqs": [[op, ...], ...]}
"""
import json
import sys


class _Stored(Exception):
    pass


def run_seq(ops):
    from labtech.runners.process import Future, FutureStateError
    f = Future()
    out = []
    for op in ops:
        try:
            if op == 'set_result':
                r = f.set_result('V')
            elif op == 'set_exception':
                r = f.set_exception(_Stored('E'))
            elif op == 'cancel':
                r = f.cancel()
            elif op == 'result':
                r = f.result()
            elif op == 'done':
                r = f.done
            else:
                r = f.cancelled
            out.append('value' if r == 'V' else ('none' if r is None else str(r)))
        except FutureStateError:
            out.append('raise:FutureStateError')
        except _Stored:
            out.append('raise:stored')
        except BaseException as ex:   # noqa
            out.append(f'raise:{type(ex).__name__}')
    return out


def main():
    jobs = json.load(open(sys.argv[1]))
    with open(sys.argv[2], 'w') as out:
        for job in jobs:
            for k, ops in enumerate(job['seqs']):
                out.write(json.dumps({'tid': f'{job["id"]}-{k}', 'id': f'{job["id"]}-{k}', 'ops': ops, 'replies': run_seq(ops)}) + '\n')


if __name__ == '__main__':
    main()
