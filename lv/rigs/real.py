"""R3: real backends (serial / fork / spawn) with OS processes, steered at resting points.

Two halves:

* `python -m lv.rigs.real <jobs.json> <out.ndjson>` (the *runner process*): imports labtech with
  LABTECH_VERIF_TRACE=<trace file>, and for each job builds the tasks, a LocalStorage in a scratch
  directory, a Lab with the real backend, and calls run_tasks.  run() bodies of universe tasks block
  on a gate file until the controller releases them.

* `Controller` (runs in the harness process): tails the trace file and, at each *resting point*
  (every started task has reported run() entry or finished, and the coordinator has sampled liveness
  since), performs the next action of the job's schedule:
      ["rel", t]   release t's gate          ["kill", t]  SIGKILL t's worker process
      ["int"]      SIGINT to the runner's process group (what Ctrl-C does)
  Actions are written to the trace *before* they are performed.  Verdicts never depend on timing;
  timeouts only bound the harness (machinery error).  A coordinator that keeps polling without
  progress for many polls is recorded as `hang` (decided by counting its own `sample` events).
"""
from __future__ import annotations

import json
import logging
import os
import shutil
import signal
import subprocess
import sys
import tempfile
import threading
import time
from pathlib import Path
from typing import Optional

SPIN_EVENTS = 3000          # coordinator events without any task progress: it is spinning
SILENCE_S = 25.0            # seconds without any event from a coordinator that should be polling twice a second
HANG_SAMPLES = 16           # polls (0.5 s each) without progress after which the run is declared hung


# =========================================================================== runner process
def _runner_main(jobs_path: str, out_path: str) -> None:
    import labtech
    from labtech import _verif
    from lv import monitor
    from lv.rigs import driver as D
    from lv.rigs.worker_main import ctxkeys_for
    from lv.universe import types as U

    jobs = json.load(open(jobs_path))
    U.PARENT_MARK = f'parent-{os.getpid()}'
    # This process plays the user's interactive Python program.  If the check was started with SIGINT ignored (a
    # background job of a non-interactive shell inherits SIG_IGN, and Python then installs no handler) a Ctrl-C would never
    # become a KeyboardInterrupt: restore the interpreter's default behaviour.
    signal.signal(signal.SIGINT, signal.default_int_handler)

    unraisable: list = []

    def _unraisable(u):
        # an exception raised where the interpreter cannot propagate it (finalizers, weak-reference callbacks, ...):
        # a KeyboardInterrupt that ends up here never reaches labtech.  Only remembered here (no I/O inside the hook);
        # reported with the job's observations.
        try:
            # (u.object may be half-deallocated: it is not touched -- repr() of it crashed the interpreter)
            unraisable.append((u.exc_type.__name__ if u.exc_type is not None else '?', '', ''))
        except BaseException:   # noqa
            pass
    sys.unraisablehook = _unraisable
    base = Path(os.environ['LV_R3_DIR'])

    class Collect(logging.Handler):
        def __init__(self):
            super().__init__()
            self.msgs = []

        def emit(self, record):
            try:
                self.msgs.append(record.getMessage())
            except Exception:   # noqa
                self.msgs.append(str(record.msg))

    with open(out_path, 'w') as out:
        for k, job in enumerate(jobs):
            cfg = job['cfg']
            jdir = base / f'job{k}'
            gate = jdir / 'gate'
            gate.mkdir(parents=True)
            sdir = jdir / 'storage'
            storage = str(sdir) if cfg['storage'] else None
            os.environ.pop('LV_GATE_DIR', None)
            if cfg['storage']:
                st = labtech.storage.LocalStorage(sdir)
                _verif.emit('setup_begin')
                setup_error = None
                try:
                    D.prepare_storage(cfg, st, job.get('shape_seed', 0))
                except BaseException as ex:   # noqa  (reported below as the outcome of this job)
                    setup_error = ex
                _verif.emit('setup_end')
            built = D.Built(cfg, job.get('shape_seed', 0), beh={int(a): b for a, b in (job.get('beh') or {}).items()})
            req = built.requested()
            handler = Collect()
            old = list(labtech.logger.handlers)
            labtech.logger.handlers = [handler]
            lab = labtech.Lab(storage=storage, context=D.lab_context(1, cfg['n']), runner_backend=cfg['backend'],
                              max_workers=(None if job.get('maxw_none') else cfg['maxw']),
                              continue_on_failure=cfg['cof'], notebook=False)
            os.environ['LV_EMPTY_CTX'] = ','.join(str(t) for t in job.get('empty_ctx') or [])
            if job.get('ctx_pair'):
                os.environ['LV_RICH'] = '1'      # results carry task objects (the task itself, its dependencies)
            if job.get('gated', True):
                os.environ['LV_GATE_DIR'] = str(gate)
                os.environ['LV_GATE_TIMEOUT'] = str(job.get('gate_timeout', 90))
            _verif.emit('job_begin', job=job['id'], gate=str(gate), mark=U.PARENT_MARK)
            try:
                if cfg['storage'] and setup_error is not None:
                    raise setup_error
                res = lab.run_tasks(req, bust_cache=cfg['bust'], disable_progress=not job.get('displays', False),
                                    disable_top=not job.get('displays', False), **(job.get('top_options') or {}))
                outcome = {'kind': 'return', 'exc': '', 'cause': '', 'keys': [t.tid for t in res.keys()],
                           'vals': list(res.values())}
            except BaseException as ex:   # noqa
                name, cause = D.exc_info(ex)
                outcome = {'kind': 'raise', 'exc': name, 'cause': cause, 'keys': [], 'vals': [], 'msg': str(ex)[:200]}
            _verif.emit('outcome', **outcome)
            labtech.logger.handlers = old
            # workers orphaned by an aborted run (LabError, second interrupt) would block at their gates and
            # be joined at interpreter exit: remove them now (manager processes are left alone)
            import multiprocessing
            for child in multiprocessing.active_children():
                if not child.name.startswith('SyncManager'):
                    child.kill()
                    child.join(5)
            os.environ.pop('LV_GATE_DIR', None)
            _verif.emit('obs_begin')
            cached, vals = ([], [])
            if cfg['storage']:
                cached, vals = D.observe_cache(lab, built, cfg['n'])
            insts = [[o.tid, int(getattr(o, 'result_meta', None) is not None), anc, D.meta_token(o)]
                     for o, anc in D.walk_instances(req)]
            pair = None
            if job.get('ctx_pair') and cfg['storage']:
                # the same request under a *different* context (same epoch), serial backend, fresh storage:
                # keys and stored metadata must not depend on the context; and two serial runs that differ only in the
                # context must leave byte-identical entries (results carry task objects: LV_RICH)
                def again(name, ctx):
                    sd = jdir / name
                    os.environ.pop('LV_RICH', None)
                    D.prepare_storage(cfg, labtech.storage.LocalStorage(sd), job.get('shape_seed', 0))
                    os.environ['LV_RICH'] = '1'
                    b2 = D.Built(cfg, job.get('shape_seed', 0))
                    lab2 = labtech.Lab(storage=str(sd), context=ctx, runner_backend='serial',
                                       continue_on_failure=True, notebook=False)
                    old2 = list(labtech.logger.handlers)
                    labtech.logger.handlers = [Collect()]
                    try:
                        lab2.run_tasks(b2.requested(), bust_cache=cfg['bust'], disable_progress=True, disable_top=True)
                    except BaseException:   # noqa
                        pass
                    labtech.logger.handlers = old2
                    return sd
                ctx2 = D.lab_context(1, cfg['n'])
                ctx2.update({'big': 'y' * 7, 'extra': [1, 2, 3]})
                sdir2 = again('storage2', ctx2)
                sdir3 = again('storage3', D.lab_context(1, cfg['n']))
                pair = (_listing(sdir) + ['-- serial, data included --'] + _listing(sdir3, data=True),
                        _listing(sdir2) + ['-- serial, data included --'] + _listing(sdir2, data=True))
                leak = _contains(sdir, D.lab_context(1, cfg['n'])['big'].encode())
            os.environ.pop('LV_RICH', None)
            _verif.emit('obs_end')
            if pair is not None:
                _verif.emit('obs_ctxstore', a=pair[0], b=pair[1], leak=int(leak))
            _verif.emit('obs_cache', cached=cached, vals=vals)
            _verif.emit('obs_marks', insts=insts)
            _verif.emit('obs_logs', delivered=handler.msgs)
            for exc_name, where, msg in unraisable:
                _verif.emit('unraisable', exc=exc_name, where=where, msg=msg)
            del unraisable[:]
            _verif.emit('job_end', job=job['id'])
            out.write(json.dumps({'tid': job['id'], 'done': True}) + '\n')
            out.flush()
            # wait for the controller to acknowledge (it may still be reading) -- file based
            ack = jdir / 'ack'
            deadline = time.time() + 60
            while not ack.exists() and time.time() < deadline:
                time.sleep(0.005)
            shutil.rmtree(jdir, ignore_errors=True)


def _listing(sdir, data: bool = False) -> list:
    import hashlib
    out = []
    for key in sorted(os.listdir(sdir)):
        p = os.path.join(sdir, key)
        if not os.path.isdir(p):
            continue
        try:
            meta = json.load(open(os.path.join(p, 'metadata.json')))
            meta.pop('start_timestamp', None)
            meta.pop('duration_seconds', None)
            line = key + '|' + json.dumps(meta, sort_keys=True)
            if data:
                for fn in sorted(os.listdir(p)):
                    if fn != 'metadata.json':
                        line += f'|{fn}:{hashlib.sha1(open(os.path.join(p, fn), "rb").read()).hexdigest()[:16]}'
            out.append(line)
        except Exception as ex:   # noqa
            out.append(key + '|unreadable:' + type(ex).__name__)
    return out


def _contains(sdir, needle: bytes) -> bool:
    """Does any stored file contain the given content of the Lab's context?"""
    for root, _dirs, files in os.walk(sdir):
        for fn in files:
            try:
                if needle in open(os.path.join(root, fn), 'rb').read():
                    return True
            except OSError:
                pass
    return False


# =========================================================================== controller
class Tail:
    def __init__(self, path: Path):
        self.path, self.pos, self.buf = path, 0, b''

    def read(self) -> list:
        out = []
        try:
            with open(self.path, 'rb') as f:
                f.seek(self.pos)
                data = f.read(1 << 20)
        except FileNotFoundError:
            return out
        self.pos += len(data)
        self.buf += data
        while b'\n' in self.buf:
            line, self.buf = self.buf.split(b'\n', 1)
            if line.strip():
                out.append(json.loads(line))
        return out


class MachineryTimeout(Exception):
    pass


class Controller:
    """Steers one runner process through its jobs."""

    def __init__(self, jobs: list, scratch: Path, idx: int, env: dict, py: str, *, job_timeout: float = 150):
        self.jobs, self.scratch, self.idx, self.env, self.py = jobs, scratch, idx, dict(env), py
        self.dir = scratch / f'r3_{idx}'
        self.dir.mkdir()
        self.trace_file = self.dir / 'trace.ndjson'
        self.job_timeout = job_timeout
        self.results: list = []
        self.proc = None
        self.fd = None

    def write(self, rec: dict):
        rec = dict(rec)
        rec.setdefault('pid', 0)
        os.write(self.fd, (json.dumps(rec, separators=(',', ':')) + '\n').encode())

    def run(self) -> list:
        """Run all jobs; a runner that had to be killed (hang) is replaced for the remaining jobs."""
        remaining = list(self.jobs)
        part = 0
        while remaining:
            done = self.run_part(remaining, part)
            remaining = remaining[done:]
            part += 1
        return self.results

    def run_part(self, jobs: list, part: int) -> int:
        jf, of = self.dir / f'jobs{part}.json', self.dir / f'out{part}.ndjson'
        json.dump(jobs, open(jf, 'w'))
        self.trace_file = self.dir / f'trace{part}.ndjson'
        env = dict(self.env)
        env['LABTECH_VERIF_TRACE'] = str(self.trace_file)
        pdir = self.dir / f'part{part}'
        pdir.mkdir()
        env['LV_R3_DIR'] = str(pdir)
        (pdir / 'tmp').mkdir()
        env['TMPDIR'] = str(pdir / 'tmp')
        self.fd = os.open(self.trace_file, os.O_WRONLY | os.O_APPEND | os.O_CREAT, 0o644)
        self.proc = subprocess.Popen([self.py, '-m', 'lv.rigs.real', str(jf), str(of)], cwd=str(self.dir), env=env,
                                     stdout=subprocess.DEVNULL, stderr=open(self.dir / 'err.txt', 'w'),
                                     start_new_session=True)
        tail = Tail(self.trace_file)
        done = 0
        try:
            for k, job in enumerate(jobs):
                res = self.steer(k, job, tail)
                self.results.append(res)
                done += 1
                if res.get('aborted'):
                    break
                (pdir / f'job{k}' / 'ack').touch()
            else:
                try:
                    self.proc.wait(timeout=30)
                except subprocess.TimeoutExpired:
                    pass        # every job has reported; whatever keeps the interpreter from exiting is killed by cleanup()
        finally:
            self.cleanup()
        return done

    def cleanup(self):
        if self.proc is not None and self.proc.poll() is None:
            try:
                os.killpg(self.proc.pid, signal.SIGKILL)
            except ProcessLookupError:
                pass
            self.proc.wait()
        else:
            # orphaned workers of an aborted run may still be alive in the session
            try:
                os.killpg(self.proc.pid, signal.SIGKILL)
            except (ProcessLookupError, PermissionError):
                pass
        if self.fd is not None:
            os.close(self.fd)
            self.fd = None

    # ---------------------------------------------------------------- one job
    def steer(self, k: int, job: dict, tail: Tail) -> dict:
        actions = [list(a) for a in (job.get('actions') or [])]
        ev: list = []                # events of this job (raw)
        started, entered, finished = [], {}, set()    # pstart order, rbegin pid by task, consumed/died tasks
        loaded = set()
        released, killed = set(), set()
        uc = {}
        runner_pid = None
        in_job = False
        in_setup = in_obs = False
        samples_since_progress = 0
        sample_after_change = False
        ints = 0
        outcome_seen = False
        hang = False
        events_since_progress = 0
        gate_dir = None
        deadline = time.time() + self.job_timeout
        last_event_time = time.time()
        wdone = set()            # tasks whose worker has finished its work (left run() / finished the load)
        post_exit_polls = 0
        while True:
            if time.time() > deadline:
                raise MachineryTimeout(f'R3 job {job["id"]} timed out; last events: {ev[-6:]}; '
                                       f'stderr: {open(self.dir / "err.txt").read()[-1500:]}')
            recs = tail.read()
            if recs:
                last_event_time = time.time()
            elif in_job and not outcome_seen and not in_setup and time.time() - last_event_time > SILENCE_S:
                # The coordinator has not polled for a long time (it polls twice a second).  If nothing it could be waiting
                # for can still happen -- every task in flight was killed or has already finished its work -- it is stuck.
                pending = [t for t in started if t not in finished and t not in killed and t not in wdone]
                if not pending and started:
                    self.write({'e': 'outcome', 'kind': 'hang', 'exc': 'Hang', 'cause': '', 'keys': [], 'vals': []})
                    ev.append({'e': 'outcome', 'kind': 'hang', 'exc': 'Hang', 'cause': '', 'keys': [], 'vals': [], 'pid': 0})
                    os.killpg(runner_pid, signal.SIGKILL)
                    return {'job': job, 'events': ev, 'runner_pid': runner_pid, 'hang': True,
                            'unused_actions': actions, 'aborted': True}
                gated = [t for t in pending if t in entered and t not in released and gate_dir is not None]
                if gated:
                    # the coordinator waits (legitimately) for a task that this rig holds at its gate, without polling: the
                    # controller will never see the resting point it is waiting for -- let the task go
                    for t in gated:
                        self.release(gate_dir, t, released)
                last_event_time = time.time()
            if not recs:
                if self.proc.poll() is not None:
                    recs = tail.read()
                    if not recs:
                        if self.proc.returncode < 0:
                            # the interpreter itself crashed (seen: SIGSEGV, "deallocated BytesIO object has exported
                            # buffers", when a KeyboardInterrupt lands inside unpickling of a manager reply): the
                            # execution is inconclusive; the remaining jobs get a fresh runner
                            return {'job': job, 'events': ev or [{'e': 'job_begin', 'pid': 0, 'mark': ''}], 'runner_pid': runner_pid,
                                    'hang': False, 'unused_actions': actions, 'aborted': True, 'crashed': self.proc.returncode}
                        raise MachineryTimeout(f'R3 runner exited early ({self.proc.returncode}): '
                                               f'{open(self.dir / "err.txt").read()[-2000:]}')
                else:
                    time.sleep(0.003)
                    continue
            for r in recs:
                e = r['e']
                if e == 'job_begin':
                    in_job, runner_pid, gate_dir = True, r['pid'], Path(r['gate'])
                    ev.append(r)
                    continue
                if not in_job:
                    continue
                if e == 'setup_begin':
                    in_setup = True
                elif e == 'setup_end':
                    in_setup = False
                    continue
                if e == 'obs_begin':
                    in_obs = True
                elif e == 'obs_end':
                    in_obs = False
                    continue
                if in_setup or in_obs:
                    continue
                ev.append(r)
                events_since_progress += 1
                if e in ('pstart', 'consume', 'died', 'exec_stop', 'rbegin', 'rend', 'load', 'outcome'):
                    events_since_progress = 0
                if e == 'submit':
                    uc[r['t']] = r['uc']
                elif e == 'pstart':
                    started.append(r['t'])
                    sample_after_change = False
                    samples_since_progress = 0
                elif e == 'rbegin':
                    entered[r['t']] = r['pid']
                elif e == 'load':
                    loaded.add(r['t'])
                    wdone.add(r['t'])
                elif e == 'rend':
                    wdone.add(r['t'])
                elif e in ('consume', 'died', 'exec_stop'):
                    finished.add(r['t'])
                    samples_since_progress = 0
                    sample_after_change = False
                elif e in ('int1', 'cancelled', 'int2', 'stopped', 'submit', 'complete'):
                    sample_after_change = False
                elif e == 'sample':
                    sample_after_change = not r.get('dead')
                    samples_since_progress += 1
                elif e == 'outcome':
                    outcome_seen = True
                elif e == 'job_end':
                    for t, pid in entered.items():      # orphans of an aborted run must not write into the next job
                        if t not in finished and pid != runner_pid:
                            try:
                                os.kill(pid, signal.SIGKILL)
                            except ProcessLookupError:
                                pass
                    return {'job': job, 'events': ev, 'runner_pid': runner_pid, 'hang': hang,
                            'unused_actions': actions}
            if outcome_seen or not in_job:
                continue
            # ---- resting point?  Every task in flight is blocked at its gate (so every earlier release /
            # kill has been fully processed by the coordinator) and the coordinator has sampled since its
            # last own step.
            inflight = [t for t in started if t not in finished]
            blocked = [t for t in inflight if t in entered and t not in released and t not in killed]
            at_rest = sample_after_change and len(blocked) == len(inflight) and \
                samples_since_progress >= job.get('rest_samples', 0)       # (full polling rounds spent at rest before acting)
            if events_since_progress >= SPIN_EVENTS and not outcome_seen:
                at_rest = False
            if at_rest and (blocked or (actions and inflight)):
                samples_since_progress = 0
                act = actions[0] if actions else None
                if act is None:
                    for t in blocked:            # default: let everything finish
                        self.release(gate_dir, t, released)
                elif act[0] == 'rel':
                    actions.pop(0)
                    if act[1] in blocked:
                        self.release(gate_dir, act[1], released)
                elif act[0] == 'kill':
                    actions.pop(0)
                    if act[1] in blocked and entered[act[1]] != runner_pid:
                        self.write({'e': 'w_die', 't': act[1]})
                        killed.add(act[1])
                        try:
                            os.kill(entered[act[1]], signal.SIGKILL)
                        except ProcessLookupError:
                            pass
                elif act[0] == 'int':
                    actions.pop(0)
                    if inflight:
                        ints += 1
                        self.write({'e': 'int', 'k': ints})
                        if job['cfg']['backend'] == 'serial' or not job.get('group_int', True):
                            os.kill(runner_pid, signal.SIGINT)
                        else:
                            os.killpg(runner_pid, signal.SIGINT)
                        sample_after_change = False
                if blocked and not inflight:
                    pass
            elif [t for t in inflight if not uc.get(t) and t not in entered and t not in killed] and \
                    events_since_progress < SPIN_EVENTS:
                # a started worker has not reached run() yet (a spawned interpreter can take seconds to boot under load):
                # that is not the coordinator hanging; only the job's wall-clock timeout applies (machinery error)
                samples_since_progress = 0
            elif (samples_since_progress >= HANG_SAMPLES or events_since_progress >= SPIN_EVENTS) and not hang:
                # the coordinator polls and polls although nothing it waits for can still happen
                hang = True
                self.write({'e': 'outcome', 'kind': 'hang', 'exc': 'Hang', 'cause': '', 'keys': [], 'vals': []})
                ev.append({'e': 'outcome', 'kind': 'hang', 'exc': 'Hang', 'cause': '', 'keys': [], 'vals': [],
                           'pid': 0})
                os.killpg(runner_pid, signal.SIGKILL)
                return {'job': job, 'events': ev, 'runner_pid': runner_pid, 'hang': True,
                        'unused_actions': actions, 'aborted': True}

    @staticmethod
    def _may_still_start(t, started):
        return t not in started

    @staticmethod
    def release(gate_dir: Path, t: int, released: set):
        (gate_dir / f'go.{t}').touch()
        released.add(t)


def run_real_jobs(jobs: list, scratch: Path, *, procs: int = 8, hashseeds: Optional[list] = None,
                  py: Optional[str] = None) -> list:
    """Run R3 jobs on `procs` runner processes; returns monitor-format traces (with meta)."""
    from lv import harness, monitor
    from lv.universe import types as U   # noqa  (only for expected_ctx_keys)
    if not jobs:
        return []
    py = py or harness.PY
    procs = max(1, min(procs, len(jobs)))
    chunks = [jobs[i::procs] for i in range(procs)]
    results: list = [None] * procs
    errors: list = []

    def work(i):
        env = harness.rig_env({'PYTHONHASHSEED': (hashseeds[i % len(hashseeds)] if hashseeds else 0)})
        c = Controller(chunks[i], scratch, i + 1000 * (id(jobs) % 997), env, py)
        try:
            results[i] = c.run()
        except BaseException as ex:   # noqa
            errors.append(f'{type(ex).__name__}: {ex}')
            c.cleanup()

    threads = [threading.Thread(target=work, args=(i,)) for i in range(procs)]
    for t in threads:
        t.start()
    for t in threads:
        t.join()
    if errors:
        from lv import tlc
        raise tlc.TLCMachineryError('R3 failed: ' + errors[0])
    out = []
    for res in results:
        for r in res:
            out.append(to_trace(r))
    order = {j['id']: k for k, j in enumerate(jobs)}
    out.sort(key=lambda o: order[o['tid']])
    return out


def to_trace(r: dict) -> dict:
    from lv import monitor
    from lv.rigs import driver as D
    from lv.universe import types as U
    job, ev = r['job'], r['events']
    cfg = job['cfg']
    jb = ev[0]
    keys = D.lab_context(1, cfg['n'])
    os.environ['LV_EMPTY_CTX'] = ','.join(str(x) for x in job.get('empty_ctx') or [])     # (the declared filters read it)
    ck = [U.expected_ctx_keys(cfg['typ'][t - 1], t, keys) for t in range(1, cfg['n'] + 1)]
    os.environ.pop('LV_EMPTY_CTX', None)
    t = monitor.to_monitor(job['id'], cfg, ev[1:], real=True, caller_pid=jb['pid'], mark=jb['mark'], ctxkeys=ck)
    t['meta'] = {'hang': r['hang'], 'unused_actions': r['unused_actions'], 'events': len(ev), 'crashed': r.get('crashed', 0),
                 'unraisable': [[e.get('exc'), e.get('where'), e.get('msg')] for e in ev if e['e'] == 'unraisable']}
    return t


def hist_to_actions(hist: list) -> list:
    """Project a TLC behaviour's environment decisions onto R3 actions."""
    out = []
    for h in hist:
        if h[0] == 'fin':
            out.append(['rel', h[1]])
        elif h[0] == 'die':
            out.append(['kill', h[1]])
        elif h[0] == 'int':
            out.append(['int'])
    return out


if __name__ == '__main__':
    _runner_main(sys.argv[1], sys.argv[2])
