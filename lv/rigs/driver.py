"""Build real labtech tasks and Labs from a configuration, run them, observe.

Must be imported with LABTECH_VERIF_TRACE already set (rigs run in their own
subprocesses: see lv/rigs/worker_main.py).
"""
from __future__ import annotations

import io
import os
import random
import sys
import threading
from typing import Any, Optional

import labtech
from labtech import _verif
from labtech.types import Storage

from lv.universe import types as U

UNL = 99


# ---------------------------------------------------------------------------
class MemStorage(Storage):
    """In-memory Storage (public Storage API), used by the in-process rigs for speed.
    A file's content becomes visible when its handle is closed."""

    def __init__(self):
        self.keys: dict = {}
        self.ops: list = []

    def find_keys(self):
        return sorted(self.keys)

    def exists(self, key):
        return key in self.keys

    def file_handle(self, key, filename, *, mode='r'):
        store = self
        files = self.keys.setdefault(key, {})
        binary = 'b' in mode
        if 'r' in mode:
            if filename not in files:
                raise FileNotFoundError(f'{key}/{filename}')
            data = files[filename]
            return io.BytesIO(data) if binary else io.StringIO(data.decode('utf-8'))

        class _W(io.BytesIO if binary else io.StringIO):
            def close(self_inner):
                if not self_inner.closed:
                    val = self_inner.getvalue()
                    files[filename] = val if binary else val.encode('utf-8')
                super().close()
        files[filename] = b''          # open(..., 'w') truncates at once
        return _W()

    def delete(self, key):
        self.keys.pop(key, None)


# ---------------------------------------------------------------------------
class Built:
    """Task objects of one configuration."""

    def __init__(self, cfg: dict, shape_seed: int = 0, fail_beh: str = 'raise', beh: Optional[dict] = None, twins: bool = True):
        self.cfg = cfg
        self.rnd = random.Random(shape_seed * 7919 + 13)
        self.shape_seed = shape_seed
        self.beh = beh or {}
        self.fail_beh = fail_beh
        self.canon: dict = {}
        self.placement: dict = {}
        self.fresh_prob = (shape_seed % 3) * 0.4      # 0, .4, .8: how often an equal but distinct instance is built
        self.twins = twins
        self.ctx_fail = False        # True: the failing tasks fail because the Lab's context tells them to ('failnow')

    def cls(self, t):
        if self.cfg.get('twins'):
            return U.TwinT
        if self.cfg.get('mainmod'):
            return sys.modules['__main__'].MainT
        y = self.cfg['typ'][t - 1]
        if self.cfg.get('prefixnames') and y == 2:
            return U.TYPES[('1x', None, 1)]          # type 2's name has type 1's name as a prefix
        mp = self.cfg['maxpar'][y - 1]
        fmt = (self.cfg.get('tfmt') or ['pickle'] * 9)[y - 1]
        c = 0 if not self.cfg['tcache'][y - 1] else (2 if fmt == 'json' else 1)
        return U.TYPES[(y, None if mp >= UNL else mp, c)]

    def behaviour(self, t):
        b = self.fail_beh if (t in self.cfg['fail'] and not self.ctx_fail) else 'ok'
        extra = self.beh.get(t)
        if t in (self.cfg.get('nulls') or []):
            extra = (extra + ' N') if extra else 'N'
        return b + (' ' + extra if extra else '')

    def make(self, t, fresh=False):
        """An instance of task t; dependencies placed in fields a / b in a per-task fixed shape."""
        if self.cfg.get('twins'):
            import copy
            return U.TwinT(x=copy.deepcopy(U.TWIN_VALUES[t - 1]))
        if not fresh and t in self.canon:
            return self.canon[t]
        deps = self.cfg['deps'][t - 1]
        objs = [self.make(d, fresh=(self.rnd.random() < self.fresh_prob)) for d in deps]
        # the shape of the parameters is a function of (shape_seed, t) only, so that every instance of
        # task t is built the same way (equal tasks); which dependency *instances* are used is not
        srnd = random.Random(self.shape_seed * 1009 + t * 31 + 7)
        a, b = None, ()
        # a dependency that appears twice in the parameters of one task may do so as two equal but distinct objects
        twin = (lambda o: self.make(o.tid, fresh=True)) if (self.twins and self.fresh_prob > 0 and self.rnd.random() < 0.5) else (lambda o: o)
        if objs:
            if srnd.random() < 0.35:
                a, rest = objs[0], objs[1:]
                if srnd.random() < 0.3:
                    rest = [twin(objs[0])] + objs[1:]     # the single-task parameter's task appears in the collection as well
            else:
                rest = objs
            b = nest(list(rest), srnd, 3, twin) if rest else ()
            if is_task_obj(b):
                b = [b]
        obj = self.cls(t)(tid=t, a=a, b=b, beh=self.behaviour(t))
        if t not in self.canon:
            self.canon[t] = obj
        return obj

    def requested(self):
        out = []
        for i, t in enumerate(self.cfg['req']):
            out.append(self.make(t, fresh=(self.rnd.random() < self.fresh_prob / 2)))
        return out


def is_task_obj(x):
    return hasattr(x, 'tid')


def nest(objs: list, rnd, depth: int, twin=lambda o: o):
    """A random nesting of lists / tuples / string-keyed dicts holding exactly the given tasks.
    Includes sibling containers of identical shape and size, singleton wrappers, duplicates."""
    if not objs:
        return rnd.choice([(), [], {}])
    if depth <= 0:
        return tuple(objs) if len(objs) > 1 else objs[0]
    kind = rnd.choice(['flat-list', 'flat-tuple', 'each-dict', 'each-list', 'dict-split', 'list-split',
                       'dict-of-dicts', 'dup', 'single', 'weighted'])
    if kind == 'single' and len(objs) == 1:
        return objs[0]
    if kind == 'flat-list':
        return list(objs)
    if kind == 'flat-tuple':
        return tuple(objs)
    if kind == 'each-dict':
        return [{'m': o} for o in objs]
    if kind == 'each-list':
        return tuple([o] for o in objs)
    if kind == 'weighted':
        return [(0.5, o) for o in objs]       # pairs that begin with a scalar
    if kind == 'dict-of-dicts':
        return {f'e{i}': {'m': o, 'w': i} for i, o in enumerate(objs)}
    if kind == 'dup':
        return {'dup': [twin(objs[-1])], 'all': nest(objs, rnd, depth - 1, twin), 'n': len(objs)}
    cut = rnd.randrange(0, len(objs) + 1)
    left, right = objs[:cut], objs[cut:]
    if kind == 'dict-split':
        return {'x': nest(left, rnd, depth - 1, twin), 'y': nest(right, rnd, depth - 1, twin), 's': 'lit'}
    return [nest(left, rnd, depth - 1, twin), nest(right, rnd, depth - 1, twin), 3.5]


def lab_context(epoch: int, n: int) -> dict:
    ctx = {'epoch': epoch, 'big': 'x' * 64}
    for t in range(1, n + 1):
        ctx[f'k{t}'] = t
    return ctx


def make_backend(name: str):
    return name


def prepare_storage(cfg: dict, storage: Storage, shape_seed: int = 0):
    """Establish the cache pre-state: run the closure of cached0 under epoch 0 with the serial
    backend, then uncache everything that is not in cached0."""
    if not cfg['cached0']:
        return
    c0 = dict(cfg)
    c0 = {**cfg, 'fail': [], 'req': list(cfg['cached0'])}
    built = Built(c0, shape_seed, twins=False)      # (the pre-state is built from the plainest instances)
    lab = labtech.Lab(storage=storage, context=lab_context(0, cfg['n']), runner_backend='serial',
                      continue_on_failure=False)
    tasks = [built.make(t) for t in cfg['cached0']]
    lab.run_tasks(tasks, disable_progress=True, disable_top=True)
    drop = [built.make(t) for t in range(1, cfg['n'] + 1) if t not in cfg['cached0']]
    lab.uncache_tasks(drop)
    for t in cfg.get('badload', []):
        # the entry stays reported as cached (metadata intact) but its result can no longer be read
        task = built.make(t)
        fn = getattr(task._lt.cache, 'RESULT_FILENAME', 'data.pickle')
        with storage.file_handle(task.cache_key, fn, mode='wb') as f:
            f.write(b'\x80')


def walk_instances(req_objs):
    """Every task instance reachable from the requested instances, with its chain of ancestors (tids)."""
    out, seen = [], set()

    def rec(obj, anc):
        key = (id(obj), tuple(anc))
        if key in seen:
            return
        seen.add(key)
        out.append((obj, list(anc)))
        for d in U.walk_deps(obj.a) + U.walk_deps(obj.b):
            rec(d, anc + [obj.tid])
    for o in req_objs:
        rec(o, [])
    return out


def meta_token(obj) -> str:
    """What an instance is marked with: start and duration of the outcome recorded on it ('' = unmarked)."""
    m = getattr(obj, 'result_meta', None)
    if m is None:
        return ''
    return f'{m.start.isoformat()}|{m.duration}'


def observe_cache(lab, built, n):
    cached, vals = [], []
    for t in range(1, n + 1):
        task = built.make(t)
        try:
            c = lab.is_cached(task)
        except Exception as ex:   # noqa
            c = False
        if c:
            cached.append(t)
            try:
                res = task._lt.cache.load_result_with_meta(lab._storage, task)
                vals.append([t, 1, res.value])
            except BaseException as ex:   # noqa
                vals.append([t, 0, []])
    return cached, vals


def exc_info(ex: BaseException):
    cause = ex.__cause__
    return type(ex).__name__, (type(cause).__name__ if cause is not None else '')
