"""Replay the cases of spec/TopList.tla on the real TaskMonitor.

usage: python -m lv.rigs.toplist <jobs.json> <out.ndjson>     job = {"id", "cases": [{"infos": [...], "sort": {"key", "rev"}, "n"}, ...]}

The monitor is built for a terminal (notebook=False) over a recording stand-in for labtech.monitor.tqdm, with a runner
stand-in whose get_task_infos() returns the case's infos (as the real runners build them: plain values and
(value, formatted) pairs); update() is called once and the displayed lines are reported cell by cell.
"""
import json
import re
import sys


class _Bar:
    def __init__(self, **kw):
        self.desc = None
        self.closed = False

    def set_description_str(self, s):
        self.desc = s

    def close(self):
        self.closed = True


class _Runner:
    def __init__(self, infos):
        self.infos = infos

    def get_task_infos(self):
        return [dict(i) for i in self.infos]


def observe(case):
    import labtech.monitor as lm
    bars = []

    def mk(**kw):
        b = _Bar(**kw)
        bars.append(b)
        return b
    orig = lm.tqdm
    lm.tqdm = mk
    try:
        infos = [{'name': i['name'], 'pid': i['pid'], 'cpu': (i['cpu'][0], i['cpu'][1])} for i in case['infos']]
        sort = ('-' if case['sort']['rev'] else '') + case['sort']['key']
        mon = lm.TaskMonitor(runner=_Runner(infos), notebook=False, top_format='$name|$pid|$cpu', top_sort=sort, top_n=case['n'])
        mon.update()
        descs = [b.desc for b in bars]
        mon.close()
    finally:
        lm.tqdm = orig
    m = re.match(r'(\d+) active tasks as at \d\d:\d\d:\d\d\. Up to top (\d+) by (\S+):$', descs[0] or '')
    got = {'header_count': int(m.group(1)) if m and int(m.group(2)) == case['n'] and m.group(3) == sort else -1}
    lines, blanks = [], 0
    for d in descs[1:]:
        if d == '':
            blanks += 1
            continue
        cells = []
        for cell in (d or 'None').split('|'):
            t = cell.strip(' ')
            cells.append({'text': t, 'width': len(cell), 'align': 'N' if len(t) == len(cell) else ('R' if cell.startswith(' ') else 'L')})
        lines.append(cells)
    got['lines'] = lines
    got['blanks'] = blanks if all(b.closed for b in bars) and len(bars) == case['n'] + 1 else -1
    return got


def main():
    jobs = json.load(open(sys.argv[1]))
    with open(sys.argv[2], 'w') as out:
        for job in jobs:
            for k, case in enumerate(job['cases']):
                try:
                    got = observe(case)
                except BaseException as ex:   # noqa
                    got = {'header_count': -1, 'lines': [], 'blanks': -1, 'error': f'{type(ex).__name__}: {ex}'[:200]}
                out.write(json.dumps({'tid': f'{job["id"]}-{k}', 'id': f'{job["id"]}-{k}', 'case': case, 'got': got}) + '\n')


if __name__ == '__main__':
    main()
