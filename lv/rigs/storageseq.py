"""Replay call sequences of spec/StorageSeq.tla on the real storage providers.

usage: python -m lv.rigs.storageseq <jobs.json> <out.ndjson>     job = {"id", "seqs": [[[op, key, file, value], ...], ...]}

Every sequence is replayed twice, on a fresh LocalStorage and on a fresh FsspecStorage over fsspec's local filesystem
(the reference implementation sketched in labtech/storage.py); each reply is reported as the model's Reply() prints it.
"""
import json
import shutil
import sys
import tempfile
from pathlib import Path


def _providers(base: Path):
    from fsspec.implementations.local import LocalFileSystem

    from labtech.storage import FsspecStorage, LocalStorage

    class LocalFsspecStorage(FsspecStorage):
        def fs_constructor(self):
            return LocalFileSystem()

    return {'local': lambda d: LocalStorage(d), 'fsspec': lambda d: LocalFsspecStorage(Path(d))}


def run_seq(make, d, ops):
    from labtech.exceptions import StorageError
    st = make(d)
    out = []
    for op, key, fn, val in ops:
        try:
            if op == 'exists':
                out.append(str(bool(st.exists(key))))
            elif op in ('write', 'append'):
                with st.file_handle(key, fn, mode='w' if op == 'write' else 'a') as fh:
                    fh.write(val)
                out.append('none')
            elif op == 'read':
                with st.file_handle(key, fn, mode='r') as fh:
                    out.append(fh.read())
            elif op == 'delete':
                r = st.delete(key)
                out.append('none' if r is None else repr(r))
            else:
                ks = sorted(st.find_keys())
                out.append('<<' + ', '.join(f'"{x}"' for x in ks) + '>>')
        except StorageError:
            # the providers word the rejection of a filename differently (StorageError / ValueError): one reply for both
            out.append('raise:BadFilename' if (op in ('write', 'append', 'read') and '/' in fn and '/' not in key and key) else 'raise:StorageError')
        except ValueError:
            out.append('raise:BadFilename' if '/' in fn else 'raise:ValueError')
        except BaseException as ex:   # noqa
            out.append(f'raise:{type(ex).__name__}')
    return out


def main():
    jobs = json.load(open(sys.argv[1]))
    base = Path(tempfile.mkdtemp(prefix='lv_stseq_')).resolve()
    try:
        provs = _providers(base)
        with open(sys.argv[2], 'w') as out:
            for job in jobs:
                for k, ops in enumerate(job['seqs']):
                    for name, make in provs.items():
                        d = base / f'{name}_{job["id"]}_{k}'
                        d.mkdir()
                        rec = {'tid': f'{job["id"]}-{k}-{name}', 'id': f'{job["id"]}-{k}-{name}', 'ops': ops, 'provider': name}
                        try:
                            rec['replies'] = run_seq(make, d, ops)
                        finally:
                            shutil.rmtree(d, ignore_errors=True)
                        out.write(json.dumps(rec) + '\n')
    finally:
        shutil.rmtree(base, ignore_errors=True)


if __name__ == '__main__':
    main()
