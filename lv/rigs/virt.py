"""R2: the real Lab / TaskCoordinator / ProcessRunner / ProcessExecutor / Future driven
deterministically on *virtual* processes.

`labtech.runners.process.multiprocessing` is replaced by a VirtualMP object.  A
virtual process executes the real thunk (_subprocess_target -> _fork_subprocess_func /
_subprocess_func -> run_or_load_task) at start() -- the fork-time view of the
parent's memory -- inside a sandbox, and holds back its outcome, its trace events
and its log records until the *schedule* releases them.  The schedule is a list of
environment decisions, either projected from a TLC behaviour of spec/LabRun.tla
(hist) or produced by the rig's own chooser:

   ["fin", t]   t's run()/load ends: events, log records and the outcome become visible
   ["exit", t]  the process exits (exit-time flush of stdout/stderr; is_alive() becomes False)
   ["die", t]   the process dies without reporting
   ["S"]        the coordinator samples liveness (start of a wait())
   ["C"]        the coordinator drains the result queue
   ["int", pc]  a KeyboardInterrupt is delivered to the calling thread at location class pc

The serial backend needs no virtualisation; it is run through the same driver so that
its events go through the same sink and interrupt injection.
"""
from __future__ import annotations

import logging
import multiprocessing as real_mp
import queue as pyqueue
import signal
import sys
import threading
from typing import Optional

import labtech
import labtech.runners.process as P
from labtech import _verif

from lv.rigs import driver as D
from lv.universe import types as U


class RigHang(BaseException):
    """The coordinator keeps polling although nothing can ever happen again."""


class VQueue:
    def __init__(self, rig, idx, asynchronous=False):
        # asynchronous: a plain multiprocessing.Queue -- put() only hands the item to a feeder thread of the producing
        # process; it reaches the consumer some time before that process exits (a Manager().Queue() put is a round trip:
        # the item is in the queue when put() returns)
        self.rig, self.idx, self.asynchronous = rig, idx, asynchronous

    # --- producer side (workers)
    def put(self, item, *a, **k):
        self.rig.route_put(item, self)

    def put_nowait(self, item):
        self.rig.route_put(item, self)

    def cancel_join_thread(self):
        pass

    def close(self):
        pass

    def join_thread(self):
        pass

    # --- consumer side (parent)
    def get(self, block=True, timeout=None):
        return self.rig.route_get(self, blocking=True, waits=bool(block) and (timeout is None or timeout > 0),
                                  forever=bool(block) and timeout is None)

    def get_nowait(self):
        return self.rig.route_get(self, blocking=False)

    def empty(self):
        return True

    def qsize(self):
        return 0


class VProcess:
    _next_pid = [50000]

    def __init__(self, rig, target=None, kwargs=None, args=(), **_):
        self.rig, self._target, self._kwargs, self._args = rig, target, kwargs or {}, args
        VProcess._next_pid[0] += 1
        self.pid = VProcess._next_pid[0]
        self.name = f'VProcess-{self.pid}'
        self.started = False

    def start(self):
        self.started = True
        self.rig.start_worker(self)

    def is_alive(self):
        return self.rig.is_alive(self)

    def terminate(self):
        self.rig.terminate(self)

    def kill(self):
        self.rig.terminate(self)

    def join(self, timeout=None):
        return self.rig.join(self, timeout)


class VContext:
    def __init__(self, rig, method):
        self.rig, self.method = rig, method
        rig.ctx_methods.append(method)

    def Process(self, *a, **k):
        self.rig.process_ctor_methods.append(self.method)
        return VProcess(self.rig, *a, **k)

    def get_start_method(self, allow_none=False):
        return self.method

    def Queue(self, maxsize=-1):
        q = VQueue(self.rig, len(self.rig.queues), asynchronous=True)
        self.rig.queues.append(q)
        return q


class VManager:
    def __init__(self, rig):
        self.rig = rig

    def Queue(self, maxsize=-1):
        q = VQueue(self.rig, len(self.rig.queues))
        self.rig.queues.append(q)
        return q

    def shutdown(self):
        pass


class VirtualMP:
    """Stands in for the `multiprocessing` module inside labtech.runners.process."""

    def __init__(self, rig):
        self.rig = rig
        self.context = real_mp.context

    def Manager(self):
        return VManager(self.rig)

    def get_context(self, method=None):
        return VContext(self.rig, method)

    def Process(self, *a, **k):
        self.rig.process_ctor_methods.append('module-default')
        return VProcess(self.rig, *a, **k)

    def current_process(self):
        return real_mp.current_process()

    def get_start_method(self, allow_none=False):
        return 'fork'

    def get_all_start_methods(self):
        return real_mp.get_all_start_methods()


class Worker:
    def __init__(self, tid, proc):
        self.tid, self.proc = tid, proc
        self.state = 'run'           # run | put | exited | dead
        self.events = []             # trace events held back until "fin"
        self.runlogs = []            # log records emitted during run()
        self.exitlogs = []           # log records produced by the exit-time flush
        self.outbox = []             # items for the result queue
        self.will_die = False


class VirtRig:
    """One execution of Lab.run_tasks on a configuration under a schedule."""

    HANG_POLLS = 6
    WATCHDOG_S = 4.0             # CPU seconds
    WALL_BACKSTOP_S = 120.0
    hangs_seen = 0

    def __init__(self, cfg: dict, schedule: list, *, shape_seed: int = 0, beh: Optional[dict] = None,
                 int_lines: Optional[list] = None, count_lines: bool = False, storage=None, prior: Optional[list] = None, default_policy: str = 'finish',
                 max_events: int = 4000, progress: bool = False):
        self.cfg, self.schedule = cfg, [list(x) for x in schedule]
        self.pos = 0
        self.shape_seed, self.beh = shape_seed, beh
        self.trace: list = []
        self.muted = False
        self.queues: list = []
        self.ctx_methods: list = []
        self.process_ctor_methods: list = []
        self.workers: dict = {}
        self.cur_worker: Optional[Worker] = None
        self.in_exit_flush = False
        self.logq: list = []
        self.resq: list = []
        self.monq: list = []
        self.phase = 'idle'          # idle -> pre (pre-S block applied) -> post (S..C block applied) -> idle
        self.idle_polls = 0
        self.skipped = 0             # schedule entries that were not applicable (drift)
        self.defaulted = 0
        self.default_policy = default_policy
        self.round = 0
        self.pending_int: Optional[list] = None
        self.count_lines = count_lines
        self.prior = prior or []
        self.progress = progress     # observe the progress bars (a recording stand-in for labtech.lab.tqdm)
        self.ctx_fail = False
        self.deadlock = False
        self.setup_failed = False
        self.prior_rebind = False    # an earlier call on the same Lab under another context, then lab.context is rebound
        self.prior_abort = None      # task that fails (by context) in an earlier, aborted call on the same Lab
        self.in_prior = False
        self.orphans: list = []
        self.prior_fids: set = set()     # futures created by an earlier call on the same Lab
        self.leftovers: list = []        # processes started for them during the call under observation
        self.tnames = None
        self.dep_order = None
        self.int_lines = int_lines   # line-boundary injection: list of global line-event indices
        self.line_count = 0
        self.line_sites: list = []   # (file, line) of every line event of the counting run
        self.in_worker = 0
        self.max_events = max_events
        self.main_thread = threading.current_thread()
        self.delivered: list = []
        self.storage = storage
        self.ints_done = 0

    # ------------------------------------------------------------------ sink
    def sink(self, rec):
        if self.muted:
            return
        rec = dict(rec)
        rec.pop('s', None)
        if rec['e'] != 'rbegin':
            rec.pop('pid', None)
        w = self.cur_worker
        if w is not None and threading.current_thread() is self.main_thread and self.in_worker:
            if rec['e'] == 'rbegin':
                self.trace.append(rec)        # run() entry is visible at once
            else:
                w.events.append(rec)
            return
        self.trace.append(rec)
        if self.deadlock and threading.current_thread() is self.main_thread:
            raise RigHang('blocked for ever on the empty result queue: nothing alive could still report')
        if len(self.trace) > self.max_events:
            raise RigHang('too many events')
        e = rec['e']
        if threading.current_thread() is not self.main_thread:
            return
        if e == 'sample':
            self.round += 1
            if self.phase == 'idle':
                self.apply_block('S')
            self.phase = 'sampled'
            self.check_hang()
        self.maybe_interrupt(e)

    # ------------------------------------------------------------------ schedule
    def peek(self):
        return self.schedule[self.pos] if self.pos < len(self.schedule) else None

    def apply_block(self, marker):
        """Apply environment decisions up to and including the next `marker` entry."""
        if self.in_prior:
            self.apply_default()        # the earlier (aborting) call does not consume the schedule
            return
        used_marker = False
        while self.pos < len(self.schedule):
            ent = self.schedule[self.pos]
            kind = ent[0]
            if kind in ('S', 'C'):
                if kind == marker:
                    self.pos += 1
                    used_marker = True
                    self.preload_int()
                else:
                    # the schedule expects the other observation first: the code has drifted
                    self.skipped += 1
                    self.pos += 1
                    continue
                break
            if kind == 'int':
                self.pending_int = ent
                self.pos += 1
                continue
            self.pos += 1
            self.apply_env(kind, ent[1])
        if not used_marker and self.pos >= len(self.schedule):
            self.apply_default()

    def preload_int(self):
        """An interrupt that the behaviour delivers before the next environment step is armed at once."""
        ent = self.peek()
        if ent is not None and ent[0] == 'int' and self.pending_int is None:
            self.pending_int = ent
            self.pos += 1

    def apply_env(self, kind, t):
        w = self.workers.get(t)
        if w is None:
            self.skipped += 1
            return
        if kind == 'fin' and w.state == 'run' and not w.will_die:
            self.finish(w)
        elif kind == 'exit' and w.state == 'put':
            self.exit(w)
        elif kind == 'die' and w.state == 'run':
            self.die(w)
        else:
            self.skipped += 1

    def apply_default(self):
        """Schedule exhausted: let everything that is running finish (or die if it was told to).  A process
        that has reported its outcome is *not* made to exit: when it exits is the environment's choice, and
        the adversarial one (after run_tasks has returned) must stay reachable."""
        if self.in_prior and self.prior_abort is not None:
            # the earlier call is aborted as early as possible: the failing task reports alone, while the others still run
            w = self.workers.get(self.prior_abort)
            if w is not None and not w.will_die:
                if w.state == 'run':
                    self.finish(w)
                    return
                self.prior_grace = getattr(self, 'prior_grace', 0) + 1
                if self.prior_grace <= 6:       # (its failure is on its way: nothing else reports in the meantime)
                    return
        own_running = False
        for w in list(self.workers.values()):
            if w.state == 'run':
                own_running = True
                self.defaulted += 1
                if w.will_die:
                    self.die(w)
                else:
                    self.finish(w)
        if not own_running and not self.resq and not any(w.state == 'put' for w in self.workers.values()):
            # (only when the call under observation could not make progress otherwise)
            for w in self.leftovers:
                if w.state == 'run':
                    self.finish(w)

    def finish(self, w):
        self.trace.extend(w.events)
        w.events = []
        self.trace.append({'e': 'w_fin', 't': w.tid})
        self.logq.extend(w.runlogs)
        w.runlogs = []
        self.resq.extend(w.outbox)
        w.outbox = []
        w.state = 'put'

    def exit(self, w):
        self.logq.extend(w.exitlogs)
        w.exitlogs = []
        self.trace.append({'e': 'w_exit', 't': w.tid})
        w.state = 'exited'

    def die(self, w):
        self.trace.append({'e': 'w_die', 't': w.tid})
        w.state = 'dead'

    def will_die(self, tid):
        for ent in self.schedule[self.pos:]:
            if ent[0] == 'die' and ent[1] == tid:
                return True
            if ent[0] == 'fin' and ent[1] == tid:
                return False
        return False

    def check_hang(self):
        if self.cfg['backend'] == 'serial':
            return
        live = any(w.state in ('run', 'put') for w in self.workers.values())
        if not live and not self.resq and self.pos >= len(self.schedule):
            self.idle_polls += 1
        else:
            self.idle_polls = 0
        if self.idle_polls >= self.HANG_POLLS:
            self.trace.append({'e': 'hang'})
            raise RigHang('coordinator keeps polling with nothing alive and nothing queued')

    # ------------------------------------------------------------------ interrupts
    INT_AT = {'loop': 'ready', 'submit': 'submit', 'wait_sample': 'logs', 'wait_consume': 'sample',
              'wait_dead': 'yield', 'wait_drain2': 'yield', 'iter': 'yield', 'body': 'complete', 'remove': 'removed',
              'ser_run': 'sample', 'int1_cancel': 'int1', 'drain_check': 'cancelled', 'int2_stop': 'int2',
              'plan': 'plan'}

    def maybe_interrupt(self, e):
        if self.pending_int is None:
            return
        want = self.INT_AT.get(self.pending_int[1], 'sample')
        if e == want or (want == 'yield' and e in ('pruned',)):
            self.pending_int = None
            self.raise_interrupt()

    def raise_interrupt(self):
        self.ints_done += 1
        self.trace.append({'e': 'int', 'k': self.ints_done})
        raise KeyboardInterrupt()

    # ------------------------------------------------------------------ virtual processes
    def start_worker(self, proc):
        fid = proc._kwargs.get('future_id')
        tid = _verif.future_task(fid)
        w = Worker(tid, proc)
        if fid in self.prior_fids and not self.in_prior:
            # a process started for a future of the EARLIER call on this Lab (something kept it): it is nobody's worker in
            # the call under observation -- the schedule's decisions about task `tid` are about that call's own process --
            # and the adversarial environment lets it run for as long as anything else is running
            w.will_die = False
            self.leftovers.append(w)
        else:
            w.will_die = self.will_die(tid)
            self.workers[tid] = w
        saved = (list(labtech.logger.handlers), sys.stdout, sys.stderr, signal.getsignal(signal.SIGINT),
                 real_mp.current_process().name)
        prev_worker, prev_rig = self.cur_worker, U.RIG
        self.cur_worker, U.RIG = w, self
        self.in_worker += 1
        try:
            try:
                proc._target(*proc._args, **proc._kwargs)
            except U.VirtualDeath:
                pass
            # multiprocessing flushes the standard streams when the process exits
            self.in_exit_flush = True
            try:
                for stream in (sys.stdout, sys.stderr):
                    try:
                        stream.flush()
                    except Exception:   # noqa
                        pass
            finally:
                self.in_exit_flush = False
        finally:
            self.in_worker -= 1
            self.cur_worker, U.RIG = prev_worker, prev_rig
            labtech.logger.handlers = saved[0]
            sys.stdout, sys.stderr = saved[1], saved[2]
            signal.signal(signal.SIGINT, saved[3])
            real_mp.current_process().name = saved[4]
        if w.will_die:
            w.outbox, w.events, w.runlogs, w.exitlogs = [], [], [], []

    def on_run_begin(self, task):
        w = self.cur_worker
        if w is not None and w.will_die:
            raise U.VirtualDeath()

    def is_alive(self, proc):
        if self.phase == 'idle':
            self.apply_block('S')
            self.phase = 'pre'
        for w in list(self.workers.values()) + self.leftovers:
            if w.proc is proc:
                return w.state in ('run', 'put')
        return False       # never started

    def join(self, proc, timeout):
        """Process.join(): without a timeout the caller blocks until the process has exited -- and when a process that has
        reported its outcome exits is the environment's choice.  The caller is at rest while it waits."""
        for w in list(self.workers.values()) + self.leftovers:
            if w.proc is proc and w.state in ('run', 'put'):
                if timeout is None:
                    self.trace.append({'e': 'rest'})
                    if w.state == 'run':
                        if w.will_die:
                            self.die(w)
                            return None
                        self.finish(w)
                    self.exit(w)
        return None

    def terminate(self, proc):
        for w in list(self.workers.values()) + self.leftovers:
            if w.proc is proc and w.state in ('run', 'put'):
                self.trace.append({'e': 'w_term', 't': w.tid})
                w.state = 'dead'
                w.outbox, w.runlogs, w.exitlogs, w.events = [], [], [], []

    # ------------------------------------------------------------------ queues
    def route_put(self, item, q=None):
        w = self.cur_worker
        if isinstance(item, logging.LogRecord):
            if w is None:
                self.logq.append(item)
            elif self.in_exit_flush or (q is not None and q.asynchronous):
                # (an asynchronous queue may deliver as late as the exit of the producing process: the adversarial choice)
                w.exitlogs.append(item)
            else:
                w.runlogs.append(item)
        elif isinstance(item, tuple) and len(item) == 2 and isinstance(item[0], int):
            if w is None:
                self.resq.append(item)
            elif isinstance(item[1], U.VirtualDeath):
                pass
            else:
                w.outbox.append(item)
        else:
            self.monq.append(item)

    def route_get(self, q, blocking, waits=False, forever=False):
        if blocking:
            # ProcessExecutor's consumer thread draining the result queue
            if waits and not self.resq:
                # the coordinator really blocks here, waiting for completions: a resting point by definition
                self.trace.append({'e': 'rest'})
            if self.phase in ('sampled', 'pre', 'idle'):
                if self.phase == 'idle':
                    self.apply_block('S')
                self.apply_block('C')
                self.phase = 'post'
            if self.resq:
                return self.resq.pop(0)
            if forever:
                # a get without a timeout only returns when an item arrives: some running worker has to finish first; if
                # none can (nothing is running, or what is running has died / will die) the coordinator is stuck for good
                alive = [w for w in self.workers.values() if w.state == 'run' and not w.will_die]
                if alive:
                    self.finish(alive[0])
                    if self.resq:
                        return self.resq.pop(0)
                self.deadlock = True          # (raised from the calling thread at its next step: this is the consumer thread)
            self.phase = 'idle'
            raise pyqueue.Empty()
        # get_nowait: the log queue or the monitor queue -- told apart by what they hold
        if self.monq and not self._is_log_queue(q):
            return self.monq.pop(0)
        if self._is_log_queue(q):
            if self.phase == 'idle' and not self.in_worker:
                self.apply_block('S')
                self.phase = 'pre'
            if self.logq:
                return self.logq.pop(0)
        raise pyqueue.Empty()

    def _is_log_queue(self, q):
        runner = self.runner_ref()
        return runner is not None and getattr(runner, 'log_queue', None) is q

    def runner_ref(self):
        return self._runner

    # ------------------------------------------------------------------ run
    def run(self):
        cfg = self.cfg
        storage = self.storage if self.storage is not None else (D.MemStorage() if cfg['storage'] else None)
        self.muted = True
        if cfg['storage']:
            try:
                D.prepare_storage(cfg, storage, self.shape_seed)
            except BaseException as ex:   # noqa
                # the pre-state is produced by a plain serial run_tasks over succeeding tasks; if that fails, this is the
                # execution to report (nothing can fail, yet run_tasks raised)
                name, cause = D.exc_info(ex)
                self.trace = [{'e': 'call'}, {'e': 'outcome', 'kind': 'raise', 'exc': name, 'cause': cause, 'keys': [], 'vals': [],
                                              'msg': 'while building the cache pre-state: ' + str(ex)[:160]},
                              {'e': 'obs_cache', 'cached': [], 'vals': []}, {'e': 'obs_marks', 'insts': []},
                              {'e': 'obs_logs', 'delivered': []}]
                self.setup_failed = True
                return self.trace
        built = D.Built(cfg, self.shape_seed, beh=self.beh)
        built.ctx_fail = self.ctx_fail
        req = built.requested()
        if not cfg.get('twins') and not cfg.get('mainmod'):
            # the order in which a task's parameters mention its dependencies (an input the configuration leaves open)
            self.dep_order = []
            for t in range(1, cfg['n'] + 1):
                o, seen = built.make(t), []
                for d in U.walk_deps(o.a) + U.walk_deps(o.b):
                    if d.tid not in seen:
                        seen.append(d.tid)
                self.dep_order.append(seen)
            by_type = {}
            for t in range(1, cfg['n'] + 1):
                by_type.setdefault(cfg['typ'][t - 1], built.cls(t))
            self.tnames = [by_type[y].__name__ if y in by_type else '' for y in range(1, len(cfg['maxpar']) + 1)]
            self._qual_to_y = {c.__qualname__: y for y, c in by_type.items()}
        if self.prior:
            # an earlier, unrelated run_tasks call on the very same task *instances* (another Lab, no storage, another
            # epoch): nothing of it may leak into the call under observation
            try:
                prior_lab = labtech.Lab(storage=None, context=D.lab_context(5, cfg['n']), runner_backend='serial', notebook=False)
                prior_lab.run_tasks([built.make(t) for t in self.prior], disable_progress=True, disable_top=True)
            except BaseException:   # noqa
                pass
        self._runner = None
        rig = self

        backend = cfg['backend']
        if backend == 'serial':
            rb = labtech.runners.SerialRunnerBackend()
        else:
            base = P.ForkRunnerBackend if backend == 'fork' else P.SpawnRunnerBackend

            class _Backend(base):
                def build_runner(self_inner, **kw):
                    r = super().build_runner(**kw)
                    rig._runner = r
                    return r
            rb = _Backend()
        handler = _Collect(self)
        old_handlers = list(labtech.logger.handlers)
        old_level = labtech.logger.level
        # (the caller's logger carries more than one handler, as it does with the default console handler plus one's own)
        labtech.logger.handlers = [logging.NullHandler(), handler]
        labtech.logger.setLevel(logging.INFO)
        saved_mp = P.multiprocessing
        P.multiprocessing = VirtualMP(self)
        _verif.sink = self.sink
        main_ctx = D.lab_context(1, cfg['n'])
        if self.ctx_fail:
            main_ctx['failnow'] = list(cfg['fail'])      # (the earlier call on the same instances ran without it: all succeeded)
        lab = labtech.Lab(storage=storage, context=main_ctx, runner_backend=rb,
                          max_workers=cfg['maxw'], continue_on_failure=cfg['cof'], notebook=False)
        if self.prior_abort is not None and not cfg['cof'] and backend != 'serial':
            # An earlier call on the very same Lab (and the same task instances) that is aborted by a task failure
            # (continue_on_failure=False) while other tasks are still queued or running.  Whatever it leaves behind in the
            # process -- queued futures, running-process tables, held results -- must not show in the call under observation.
            main_ctx['failnow'] = [self.prior_abort]
            self.in_prior = True
            old_prof = signal.signal(signal.SIGPROF, lambda *_a: (_ for _ in ()).throw(RigHang('earlier call did not finish')))
            old_alrm = signal.signal(signal.SIGALRM, lambda *_a: (_ for _ in ()).throw(RigHang('earlier call did not finish')))
            signal.setitimer(signal.ITIMER_PROF, VirtRig.WATCHDOG_S)
            signal.setitimer(signal.ITIMER_REAL, VirtRig.WALL_BACKSTOP_S)
            try:
                lab.run_tasks([built.make(t) for t in range(1, cfg['n'] + 1)], bust_cache=cfg['bust'], disable_progress=True,
                              disable_top=True)        # (the earlier call asks for every task, the observed one for its own list)
            except BaseException:   # noqa  (LabError is the point; anything else shows in the observed call or not at all)
                pass
            finally:
                signal.setitimer(signal.ITIMER_PROF, 0)
                signal.setitimer(signal.ITIMER_REAL, 0)
                signal.signal(signal.SIGPROF, old_prof)
                signal.signal(signal.SIGALRM, old_alrm)
            self.in_prior = False
            self.orphans, self.workers = list(self.workers.values()), {}
            self.prior_fids = set(_verif._future_tasks)
            del self.trace[:]
            self.logq, self.resq, self.monq = [], [], []
            self.phase, self.idle_polls, self.deadlock, self.round = 'idle', 0, False, 0
            self.delivered = []
            try:
                # what the earlier call managed to store is removed again: the observed call starts from the configured pre-state
                lab.uncache_tasks([built.make(t) for t in range(1, cfg['n'] + 1) if t not in cfg['cached0']])
            except BaseException:   # noqa
                pass
            main_ctx['failnow'] = list(cfg['fail'])
        if self.prior_rebind and backend != 'serial':
            # An earlier, successful call on the very same Lab under *another* context; the context is then rebound
            # (lab.context = ...) before the call under observation.
            lab.context = D.lab_context(7, cfg['n'])
            self.in_prior = True
            old_prof = signal.signal(signal.SIGPROF, lambda *_a: (_ for _ in ()).throw(RigHang('earlier call did not finish')))
            signal.setitimer(signal.ITIMER_PROF, VirtRig.WATCHDOG_S)
            try:
                lab.run_tasks([built.make(t) for t in range(1, cfg['n'] + 1) if t not in cfg['fail']], disable_progress=True,
                              disable_top=True)
            except BaseException:   # noqa
                pass
            finally:
                signal.setitimer(signal.ITIMER_PROF, 0)
                signal.signal(signal.SIGPROF, old_prof)
            self.in_prior = False
            self.orphans, self.workers = list(self.workers.values()), {}
            self.prior_fids = set(_verif._future_tasks)
            del self.trace[:]
            self.logq, self.resq, self.monq = [], [], []
            self.phase, self.idle_polls, self.deadlock, self.round = 'idle', 0, False, 0
            self.delivered = []
            try:
                lab.uncache_tasks([built.make(t) for t in range(1, cfg['n'] + 1) if t not in cfg['cached0']])
            except BaseException:   # noqa
                pass
            lab.context = main_ctx
        self.muted = False
        self.trace.append({'e': 'call'})
        self.preload_int()
        outcome = None
        tracer = self._line_tracer() if (self.int_lines or self.count_lines) else None
        try:
            try:
                if tracer:
                    sys.settrace(tracer)
                # a coordinator that spins without ever calling into the runner emits no events at all: wall-clock
                # watchdog (the run normally takes milliseconds; the verdict is "hang", decided like any other hang)
                def _alarm(signum, frame):
                    raise RigHang('no progress: run_tasks did not finish')
                # The budget is CPU time of this process (ITIMER_PROF): a spinning coordinator burns it, a process that is
                # merely starved by other work on the machine does not.  A generous wall-clock limit backs it up for a
                # coordinator that blocks without consuming CPU.
                old_alarm = signal.signal(signal.SIGALRM, _alarm)
                old_prof = signal.signal(signal.SIGPROF, _alarm)
                signal.setitimer(signal.ITIMER_PROF, VirtRig.WATCHDOG_S)
                signal.setitimer(signal.ITIMER_REAL, VirtRig.WALL_BACKSTOP_S)
                saved_tqdm = labtech.lab.tqdm
                if self.progress:
                    labtech.lab.tqdm = _rec_tqdm(self)
                try:
                    kw = dict(bust_cache=cfg['bust'], disable_progress=not self.progress, disable_top=True)
                    if len(req) == 1 and self.shape_seed % 2 == 0:
                        # Lab.run_task: the single-task front end (a task that failed under continue_on_failure has no
                        # entry to return: run_task then raises KeyError(task), which is the empty dict of run_tasks)
                        try:
                            res = {req[0]: lab.run_task(req[0], **kw)}
                        except KeyError as ex:
                            if not (ex.args and ex.args[0] is req[0]):
                                raise
                            res = {}
                    else:
                        res = lab.run_tasks(req, **kw)
                finally:
                    labtech.lab.tqdm = saved_tqdm
                    signal.setitimer(signal.ITIMER_PROF, 0)
                    signal.setitimer(signal.ITIMER_REAL, 0)
                    signal.signal(signal.SIGALRM, old_alarm)
                    signal.signal(signal.SIGPROF, old_prof)
                    if tracer:
                        sys.settrace(None)
                outcome = {'e': 'outcome', 'kind': 'return', 'exc': '', 'cause': '',
                           'keys': [k.tid for k in res.keys()], 'vals': [v for v in res.values()]}
            except RigHang:
                VirtRig.hangs_seen += 1
                if VirtRig.hangs_seen >= 8:
                    VirtRig.WATCHDOG_S = 1.0        # many hangs already: do not spend minutes on the rest
                if VirtRig.hangs_seen >= 40:
                    VirtRig.WATCHDOG_S = 0.4        # (an execution normally takes about ten milliseconds)
                outcome = {'e': 'outcome', 'kind': 'hang', 'exc': 'RigHang', 'cause': '', 'keys': [], 'vals': []}
            except BaseException as ex:   # noqa
                name, cause = D.exc_info(ex)
                outcome = {'e': 'outcome', 'kind': 'raise', 'exc': name, 'cause': cause, 'keys': [], 'vals': [],
                           'msg': str(ex)[:200]}
        finally:
            P.multiprocessing = saved_mp
            labtech.logger.handlers = old_handlers
            labtech.logger.setLevel(old_level)
        self.trace.append(outcome)
        # post-call observations
        self.muted = True
        cached, vals = ([], [])
        if cfg['storage']:
            cached, vals = D.observe_cache(lab, built, cfg['n'])
        insts = [[o.tid, int(getattr(o, 'result_meta', None) is not None), anc, D.meta_token(o)]
                 for o, anc in D.walk_instances(req)]
        self.muted = False
        self.trace.append({'e': 'obs_cache', 'cached': cached, 'vals': vals})
        self.trace.append({'e': 'obs_marks', 'insts': insts})
        self.trace.append({'e': 'obs_logs', 'delivered': self.delivered})
        _verif.sink = None
        return self.trace

    def _line_tracer(self):
        targets = set(self.int_lines or [])
        rig = self

        def local(frame, event, arg):
            if event == 'line' and not rig.in_worker and threading.current_thread() is rig.main_thread:
                rig.line_count += 1
                if rig.count_lines:
                    rig.line_sites.append((frame.f_code.co_filename.rsplit('/', 1)[-1], frame.f_lineno))
                if rig.line_count in targets:
                    rig.ints_done += 1
                    ignored = signal.getsignal(signal.SIGINT) is signal.SIG_IGN
                    rig.trace.append({'e': 'int', 'k': rig.ints_done, 'ignored': int(ignored),
                                      'at': f'{frame.f_code.co_filename.rsplit("/", 1)[-1]}:{frame.f_lineno}'})
                    if ignored:
                        return local        # the calling thread has SIGINT set to "ignore" here: a real Ctrl-C is simply lost
                    raise KeyboardInterrupt()
            return local

        def tracer(frame, event, arg):
            fn = frame.f_code.co_filename
            if '/labtech/' in fn and not fn.endswith('_verif.py'):
                return local
            return None
        return tracer


def _rec_tqdm(rig):
    """A stand-in for the progress-bar class used by TaskCoordinator.get_pbar: records creation (type, total), every
    update and the close as trace events (y = 0: the description names no type of the configuration)."""
    class RecTqdm:
        def __init__(self, *a, desc=None, total=None, disable=False, **kw):
            self.y = getattr(rig, '_qual_to_y', {}).get(desc, 0)
            self.disable = disable
            rig.trace.append({'e': 'pb_new', 'y': self.y, 'total': -1 if total is None else int(total), 'desc': str(desc)})

        def update(self, n=1):
            rig.trace.append({'e': 'pb_upd', 'y': self.y, 'k': int(n)})

        def refresh(self, *a, **kw):
            pass

        def close(self):
            rig.trace.append({'e': 'pb_close', 'y': self.y})

        def set_description_str(self, *a, **kw):
            pass
    return RecTqdm


class _Collect(logging.Handler):
    def __init__(self, rig):
        super().__init__()
        self.rig = rig

    def emit(self, record):
        try:
            msg = record.getMessage()
        except Exception:   # noqa
            msg = str(record.msg)
        self.rig.delivered.append(msg)
