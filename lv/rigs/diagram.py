"""Replay TaskDiagram inputs on the real build_task_diagram and parse what it renders (C20).

usage: python -m lv.rigs.diagram <jobs.json> <out.ndjson>
       python -m lv.rigs.diagram --render <inputs.json> <out.json>     (fresh interpreter: rendered strings only)
job = {"id", "inputs": [{"inp": [task nodes], "types": [...], "rels": [...]}, ...], "hashseeds": [...]}
"""
from __future__ import annotations

import json
import os
import re
import subprocess
import sys
import traceback


def to_py(node):
    from frozendict import frozendict
    from lv.universe import dg
    k, a, c = node
    if k == 'int':
        return int(a)
    if k == 'str':
        return a
    if k == 'tuple':
        return tuple(to_py(x) for x in c)
    if k == 'list':
        return [to_py(x) for x in c]
    if k in ('fdict', 'dict'):
        return {to_py(c[i]): to_py(c[i + 1]) for i in range(0, len(c), 2)}
    if k == 'task':
        cls = {'d.D1': dg.D1, 'd.D2': dg.D2, 'd.D3': dg.D3}[a]
        return cls(f1=to_py(c[0]), f2=to_py(c[1]))
    raise ValueError(k)


CLASS_RE = re.compile(r'^\s*class (\w+)\s*$')
MEMBER_RE = re.compile(r'^\s*(\w+) : (.*)$')
ARROW_RE = re.compile(r'^\s*(\w+) <-- ("many" )?(\w+): (\w+)\s*$')


def parse(diagram: str) -> dict:
    classes, members, arrows, other = [], [], [], []
    for line in diagram.splitlines():
        if not line.strip() or line.strip() == 'classDiagram' or line.strip().startswith('direction '):
            continue
        m = ARROW_RE.match(line)
        if m:
            arrows.append(['d.' + m.group(1), m.group(4), 'd.' + m.group(3), bool(m.group(2))])
            continue
        m = CLASS_RE.match(line)
        if m:
            classes.append('d.' + m.group(1))
            continue
        m = MEMBER_RE.match(line)
        if m:
            members.append(['d.' + m.group(1), m.group(2).strip()])
            continue
        other.append(line)
    return {'classes': classes, 'members': members, 'arrows': arrows, 'other': other}


def render_all(inputs):
    from labtech.diagram import build_task_diagram
    out = []
    for item in inputs:
        tasks = [to_py(n) for n in item['inp']]
        try:
            out.append(build_task_diagram(tasks))
        except BaseException as ex:   # noqa
            out.append(f'ERROR {type(ex).__name__}: {ex}')
    return out


def run_job(job):
    inputs = job['inputs']
    first = render_all(inputs)
    second = render_all(inputs)
    fresh = []
    import tempfile
    with tempfile.TemporaryDirectory(dir=os.environ.get('TMPDIR')) as d:
        inf = os.path.join(d, 'in.json')
        json.dump(inputs, open(inf, 'w'))
        for hs in job.get('hashseeds', [11]):
            env = dict(os.environ)
            env['PYTHONHASHSEED'] = str(hs)
            outf = os.path.join(d, f'out_{hs}.json')
            p = subprocess.run([sys.executable, '-m', 'lv.rigs.diagram', '--render', inf, outf], env=env, capture_output=True,
                               text=True, timeout=600)
            if p.returncode != 0:
                raise RuntimeError(p.stderr[-1500:])
            fresh.append(json.load(open(outf)))
    res = []
    for k, item in enumerate(inputs):
        p = parse(first[k])
        runs = sorted(m[0] for m in p['members'] if m[1].startswith('run()'))
        params = sorted([m[0], m[1].split()[-1]] for m in p['members'] if not m[1].startswith('run()'))
        res.append({'id': f'{job["id"]}-{k}', 'tid': f'{job["id"]}-{k}', 'inp': item['inp'], 'exp_types': item['types'], 'exp_rels': item['rels'],
                    'classes': p['classes'], 'params': params, 'runs': runs, 'arrows': p['arrows'], 'unparsed': p['other'],
                    'render_error': first[k].startswith('ERROR'),
                    'deterministic': bool(first[k] == second[k] and all(f[k] == first[k] for f in fresh))})
    return res


def main():
    if sys.argv[1] == '--render':
        json.dump(render_all(json.load(open(sys.argv[2]))), open(sys.argv[3], 'w'))
        return
    jobs = json.load(open(sys.argv[1]))
    with open(sys.argv[2], 'w') as out:
        for job in jobs:
            try:
                res = run_job(job)
            except BaseException as ex:   # noqa
                res = [{'tid': job['id'], 'error': ''.join(traceback.format_exception(type(ex), ex, ex.__traceback__))[-3000:]}]
            for r in res:
                out.write(json.dumps(r, separators=(',', ':')) + '\n')


if __name__ == '__main__':
    main()
