"""Replay the dependency graphs of spec/CycleCheck.tla on the real TaskState.check_cyclic_dependences.

usage: python -m lv.rigs.cyclecheck <jobs.json> <out.ndjson>     job = {"id", "graphs": [[[deps of node 1], [deps of node 2], ...], ...]}

Real task objects cannot form a cycle (they are frozen values built bottom-up), so the method is called on a TaskState
whose planning tables are filled with stand-in nodes (integers): pending_tasks in ascending and in descending order.
"""
import json
import sys
from collections import defaultdict


def verdict(graph, order):
    from labtech.exceptions import LabError
    from labtech.lab import TaskState
    from labtech.utils import OrderedSet
    ts = object.__new__(TaskState)
    ts.pending_tasks = OrderedSet()
    for n in order:
        ts.pending_tasks.add(n)
    ts.task_to_direct_dependencies = defaultdict(set)
    for i, deps in enumerate(graph):
        for d in deps:
            ts.task_to_direct_dependencies[i + 1].add(d)
    try:
        ts.check_cyclic_dependences()
        return 'ok'
    except LabError:
        return 'cyclic'
    except BaseException as ex:   # noqa
        return f'raise:{type(ex).__name__}'


def main():
    jobs = json.load(open(sys.argv[1]))
    with open(sys.argv[2], 'w') as out:
        for job in jobs:
            for k, graph in enumerate(job['graphs']):
                n = len(graph)
                for name, order in (('up', range(1, n + 1)), ('down', range(n, 0, -1))):
                    rec = {'tid': f'{job["id"]}-{k}-{name}', 'id': f'{job["id"]}-{k}-{name}', 'graph': graph,
                           'verdict': verdict(graph, list(order))}
                    out.write(json.dumps(rec) + '\n')


if __name__ == '__main__':
    main()
