"""Replay call sequences of spec/SmallModels.tla on the real LoggerFileProxy and OrderedSet.

usage: python -m lv.rigs.small <jobs.json> <out.ndjson>     job = {"id", "which": "proxy"|"oset", "seqs": [[[op, arg], ...], ...]}
"""
import json
import sys


def run_proxy(ops):
    from labtech.utils import LoggerFileProxy
    records = []
    p = LoggerFileProxy(records.append, 'PFX:')
    for op, arg in ops:
        if op == 'write':
            p.write(arg)
        else:
            p.flush()
    # one record per flush: "PFX:frag\nPFX:frag..."; report the fragments of each record
    return [[line[len('PFX:'):] for line in r.split('\n')] for r in records]


def run_oset(ops):
    from labtech.utils import OrderedSet
    s = OrderedSet()
    out = []
    for op, arg in ops:
        try:
            if op == 'add':
                s.add(arg)
                out.append('none')
            elif op == 'remove':
                s.remove(arg)
                out.append('none')
            elif op == 'contains':
                out.append(str(arg in s))
            elif op == 'items':
                out.append('<<' + ', '.join(f'"{x}"' for x in s) + '>>')
            else:
                out.append(str(len(s)))
        except KeyError:
            out.append('raise:KeyError')
        except BaseException as ex:   # noqa
            out.append(f'raise:{type(ex).__name__}')
    return out


def run_monitor(ops):
    import queue
    from labtech.runners.process import ProcessEndEvent, ProcessMonitor, ProcessStartEvent
    q = queue.Queue()
    mon = ProcessMonitor(process_event_queue=q)
    out = []
    for op, arg in ops:
        if op == 'start':
            q.put(ProcessStartEvent(task_name=arg, pid=1, use_cache=False))
            out.append('none')
        elif op == 'end':
            q.put(ProcessEndEvent(task_name=arg))
            out.append('none')
        else:
            mon._consume_monitor_queue()
            out.append('<<' + ', '.join(f'"{x}"' for x in mon.active_process_events) + '>>')
    return out


def main():
    jobs = json.load(open(sys.argv[1]))
    with open(sys.argv[2], 'w') as out:
        for job in jobs:
            for k, ops in enumerate(job['seqs']):
                rec = {'tid': f'{job["id"]}-{k}', 'id': f'{job["id"]}-{k}', 'ops': ops}
                if job['which'] == 'proxy':
                    rec['delivered'] = run_proxy(ops)
                elif job['which'] == 'oset':
                    rec['replies'] = run_oset(ops)
                else:
                    rec['replies'] = run_monitor(ops)
                out.write(json.dumps(rec) + '\n')


if __name__ == '__main__':
    main()
