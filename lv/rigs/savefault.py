"""Inject one fault / crash into a real BaseCache.save and observe what a later Lab sees (C12, C13).

usage: python -m lv.rigs.savefault <jobs.json> <out.ndjson>

job = {"id", "fmt": "pickle"|"json", "shape": "small"|"big"|"unpicklable", "overwrite": bool,
       "provider": "local"|"fsspec", "backend": "serial"|"fork"|"spawn", "plan": {...}}
A job with plan.mode in ("record", "line-record") and "expand": "raise"|"kill" is expanded by the runner:
it first records the operations (lines) of the unfaulted save, then runs one injection per operation.
"""
from __future__ import annotations

import json
import os
import shutil
import sys
import tempfile
import traceback
from pathlib import Path

ROLE = {'metadata.json': 'meta'}


def make_storage(provider: str, d: Path):
    import labtech
    if provider == 'local':
        return labtech.storage.LocalStorage(d)
    from lv.universe.faults import LocalFsspecStorage
    return LocalFsspecStorage(d)


def classify(value, shape):
    from lv.universe import faults as F
    for name, ep in (('old', 0), ('new', 1)):
        try:
            if shape != 'unpicklable' and value == F.make_value(shape, ep):
                return name
        except Exception:   # noqa
            pass
    return 'other'


def role_ops(oplog):
    out = []
    for o in oplog:
        parts = o.split(':')
        if parts[0] in ('open', 'write', 'close', 'flush') and len(parts) > 1:
            role = 'meta' if parts[1] == 'metadata.json' else 'data'
            if parts[0] == 'flush':
                continue
            out.append(f'{parts[0]}_{role}')
        else:
            out.append(parts[0])
    return out


def run_one(job: dict, base: Path) -> dict:
    import labtech
    from lv.universe import faults as F
    T = F.SAVE_TYPES[job['fmt']]
    shape, ow, plan = job['shape'], job['overwrite'], job['plan']
    d = Path(tempfile.mkdtemp(prefix='sf_', dir=base))
    sdir = d / 'st'
    plain = make_storage(job['provider'], sdir)
    t_old = None
    quiet = dict(disable_progress=True, disable_top=True)
    if ow:
        t0 = T(tid=1, shape='small' if shape == 'unpicklable' else shape)
        lab0 = labtech.Lab(storage=plain, context={'epoch': 0}, runner_backend='serial', notebook=False)
        # the old entry of an "unpicklable" overwrite is a small picklable one: same key needs same params, so the
        # shape field is part of the key -- use the same shape and make the value depend on the epoch instead
        t0 = T(tid=1, shape=shape)
        if shape == 'unpicklable':
            ow = False          # an unpicklable result can never have been stored before
        else:
            lab0.run_tasks([t0], **quiet)
            t_old = t0.result_meta.start
    taskf = T(tid=1, shape=shape)
    labf = labtech.Lab(storage=F.FaultStorage(plain), context={'epoch': 1}, runner_backend=job['backend'],
                       continue_on_failure=True, max_workers=1, notebook=False)
    # the Lab that is about to save has already looked at the entry (and, every other time, listed it): whatever it
    # remembers from that must not outlive the failed / killed save
    try:
        labf.is_cached(taskf)
        if plan.get('at', 0) % 2 == 0:
            labf.cached_tasks([T])
    except BaseException:   # noqa
        pass
    F.PLAN = plan
    F.HIT = 0
    os.environ['LV_FAULT_PLAN'] = json.dumps(plan)
    raised = ''
    res = {}
    try:
        res = labf.run_tasks([taskf], bust_cache=bool(ow), **quiet)
    except BaseException as ex:   # noqa
        raised = type(ex).__name__
    ops = list(F.OPLOG)
    count = F.COUNT
    hit_here = F.HIT
    F.PLAN = None
    os.environ.pop('LV_FAULT_PLAN', None)
    task_failed = taskf not in res
    # ---- what a later Lab observes
    lab = labtech.Lab(storage=plain, context={'epoch': 1}, runner_backend='serial', notebook=False)
    t2 = T(tid=1, shape=shape)
    obs = {'id': job['id'], 'mode': plan['mode'], 'at': plan.get('at', 0), 'overwrite': bool(ow), 'fmt': job['fmt'],
           'shape': shape, 'provider': job['provider'], 'backend': job['backend'], 'raised': raised,
           'task_failed': bool(task_failed)}
    try:
        obs['is_cached'] = bool(lab.is_cached(t2))
    except BaseException as ex:   # noqa
        obs['is_cached'] = True          # is_cached itself blows up: the entry is reported in the worst way
        obs['is_cached_exc'] = type(ex).__name__
    try:
        lst = lab.cached_tasks([T])
        obs['listed'], obs['list_raises'] = (t2 in lst), False
    except BaseException as ex:   # noqa
        obs['listed'], obs['list_raises'] = False, True
        obs['list_exc'] = type(ex).__name__
    # ---- and what the Lab that performed the save observes (same object, same process)
    t2s = T(tid=1, shape=shape)
    try:
        obs['same_is_cached'] = bool(labf.is_cached(t2s))
    except BaseException as ex:   # noqa
        obs['same_is_cached'] = True
        obs['same_is_cached_exc'] = type(ex).__name__
    try:
        lst = labf.cached_tasks([T])
        obs['same_listed'], obs['same_list_raises'] = (t2s in lst), False
    except BaseException as ex:   # noqa
        obs['same_listed'], obs['same_list_raises'] = False, True
    try:
        if not (obs['is_cached'] or obs['listed'] or obs['same_is_cached'] or obs['same_listed']):
            # nothing is reported: do not touch the storage (LocalStorage creates the key directory even for a read)
            raise LookupError('not reported as cached')
        r = t2._lt.cache.load_result_with_meta(plain, t2)
        obs['load_ok'] = True
        obs['load_val'] = classify(r.value, shape)
        obs['meta_val'] = 'old' if (t_old is not None and r.meta.start == t_old) else 'new'
    except BaseException as ex:   # noqa
        obs['load_ok'], obs['load_val'], obs['meta_val'] = False, 'none', 'none'
        obs['load_exc'] = type(ex).__name__
    try:
        obs['files'] = sorted(os.listdir(sdir / t2.cache_key)) if (sdir / t2.cache_key).is_dir() else None
    except Exception:   # noqa
        obs['files'] = None
    obs['rerun_applicable'] = shape != 'unpicklable'
    t3 = T(tid=1, shape=shape)
    # the re-run is made by the saving Lab itself or by the later one, alternating with the injection point
    same = (plan.get('at', 0) + (1 if ow else 0)) % 2 == 1
    obs['rerun_by'] = 'same' if same else 'fresh'
    try:
        out = (labf if same else lab).run_tasks([t3], **quiet)
        obs['rerun_ok'] = t3 in out
        obs['rerun_val'] = classify(out[t3], shape) if t3 in out else 'none'
    except BaseException as ex:   # noqa
        obs['rerun_ok'], obs['rerun_val'] = False, 'none'
        obs['rerun_exc'] = type(ex).__name__
    coarse = plan['mode'].startswith('line') or plan['mode'].startswith('audit')
    obs['ops'] = role_ops(ops) if not coarse else []
    obs['raw_ops'] = ops[:400]
    obs['nops'] = count if not coarse else len(ops)
    obs['fault_free'] = plan['mode'] in ('record', 'line-record', 'audit-record') and shape != 'unpicklable'
    # raise modes: the injector says whether the fault was raised (serial backend: same process); kills: the worker died
    obs['fault_hit'] = (plan['mode'] == 'inherent') or (hit_here > 0 if 'raise' in plan['mode'] else
                                                        (plan.get('at', 0) > 0 and (task_failed or raised != '')))
    shutil.rmtree(d, ignore_errors=True)
    return obs


def expand(job: dict, base: Path) -> list:
    """Record run, then one injection per recorded operation / line."""
    kind = job.get('expand')
    # operations are counted inside the process that saves: the record run always uses the serial backend
    rec = run_one(dict(job, backend='serial') if kind == 'kill' else job, base)
    out = [rec]
    if not kind:
        return out
    if job['shape'] == 'unpicklable':
        # the fault is inherent (the result cannot be serialised); the record run *is* the experiment
        rec['mode'] = 'inherent'
        rec['fault_hit'] = True
        return out
    n = rec['nops']
    if job['plan']['mode'] == 'audit-record':
        # one kill just before every filesystem mutation of the save, under the recorded directory order
        for k in range(1, n + 1):
            j = dict(job)
            j['plan'] = dict(mode='audit-kill', at=k, order=job['plan'].get('order'), sig=9)
            j['id'] = f'{job["id"]}-audit-kill{k}'
            j.pop('expand')
            o = run_one(j, base)
            o['op'] = rec['raw_ops'][k - 1] if k - 1 < len(rec['raw_ops']) else ''
            out.append(o)
        return out
    line = job['plan']['mode'] == 'line-record'
    ks = list(range(1, n + 1))
    limit = job.get('limit')
    if limit and len(ks) > limit:
        import random
        ks = sorted(random.Random(job.get('seed', 0)).sample(ks, limit))
    for k in ks:
        variants = [{}]
        if kind == 'kill' and not line:
            raw = rec['raw_ops'][k - 1] if k - 1 < len(rec['raw_ops']) else ''
            variants = [{'sig': 9}]
            if raw.startswith('write'):
                variants += [{'sig': 9, 'half': 1}, {'sig': 9, 'half': 1, 'flush': 1}]
            if job.get('sigterm'):
                variants.append({'sig': 15})
        for vi, v in enumerate(variants):
            j = dict(job)
            mode = ('line-' if line else '') + kind
            j['plan'] = dict(mode=mode, at=k, **v)
            j['id'] = f'{job["id"]}-{mode}{k}' + (f'v{vi}' if vi else '')
            j.pop('expand')
            o = run_one(j, base)
            o['op'] = (rec['raw_ops'][k - 1] if k - 1 < len(rec['raw_ops']) else '')
            out.append(o)
    return out


def main():
    jobs = json.load(open(sys.argv[1]))
    base = Path(tempfile.mkdtemp(prefix='sfbase_', dir=os.environ.get('TMPDIR')))
    with open(sys.argv[2], 'w') as out:
        for job in jobs:
            try:
                res = expand(job, base)
            except BaseException as ex:   # noqa
                res = [{'tid': job['id'], 'error': ''.join(traceback.format_exception(type(ex), ex, ex.__traceback__))[-3000:]}]
            for r in res:
                r.setdefault('tid', r.get('id'))
                out.write(json.dumps(r, separators=(',', ':')) + '\n')
            out.flush()
    shutil.rmtree(base, ignore_errors=True)


if __name__ == '__main__':
    main()
