"""./check --replay <file>: re-drive the recorded job against /repo's current tree and re-judge it."""
from __future__ import annotations

import json

from lv import harness


def main(path: str) -> int:
    payload = json.load(open(path))
    kind = payload.get('kind')
    prop = payload['property']
    with harness.Scratch() as scratch:
        if kind == 'labrun-trace':
            job = dict(payload['job'])
            job['keep_raw'] = True
            if payload.get('module') == 'real':
                from lv.rigs import real
                traces = real.run_real_jobs([job], scratch, procs=1)
            else:
                traces = harness.run_jobs([job], scratch, procs=1)
            val = harness.validate_parallel(traces, scratch, props=prop)
            fails = [(c, p) for c, p in val['verdicts'][traces[0]['tid']] if harness.prop_of(c) == prop]
            for e in traces[0].get('raw', []):
                print(json.dumps(e))
            if fails:
                print(f'VIOLATION property={prop} replay={path}')
                print(f'  {fails}')
                return 1
            print(f'replay of {path}: property {prop} holds on this execution')
            return 0
        from lv.checks import REPLAYERS
        if kind in REPLAYERS:
            return REPLAYERS[kind](payload, path, scratch)
    print(f'unknown replay kind {kind}')
    return 2
