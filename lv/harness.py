"""Shared orchestration for the checks: scratch handling, job execution, TLC model checking and
schedule extraction, verdict classification, evidence / replay / known-findings files."""
from __future__ import annotations

import hashlib
import json
import os
import random
import shutil
import subprocess
import sys
import tempfile
import time
from concurrent.futures import ThreadPoolExecutor
from pathlib import Path
from typing import Callable, Iterable, Optional

from lv import families, monitor, tlc

VERIF = Path(__file__).resolve().parent.parent
REPO = Path(os.environ.get('LV_REPO', '/repo'))
PY = os.environ.get('LV_PYTHON', '/venv/bin/python')
NPROC = int(os.environ.get('LV_PROCS', str(os.cpu_count() or 4)))


class Scratch:
    def __enter__(self):
        self.path = Path(tempfile.mkdtemp(prefix='lv_'))
        return self.path

    def __exit__(self, *a):
        shutil.rmtree(self.path, ignore_errors=True)


def seed_from_env() -> int:
    try:
        return int(os.environ.get('VERIF_SEED', '0'))
    except ValueError:
        return 0


# ------------------------------------------------------------------ running the rigs
def rig_env(extra: Optional[dict] = None) -> dict:
    e = dict(os.environ)
    e['LABTECH_VERIF_TRACE'] = 'mem'
    e['PYTHONPATH'] = f'{VERIF}:{REPO}'
    e['PYTHONHASHSEED'] = e.get('LV_HASHSEED', '0')
    e['PYTHONDONTWRITEBYTECODE'] = '1'
    e.pop('VERIF_SEED', None)
    if extra:
        e.update({k: str(v) for k, v in extra.items()})
    return e


def run_jobs(jobs: list, scratch: Path, *, procs: int = NPROC, env: Optional[dict] = None,
             module: str = 'lv.rigs.worker_main', timeout: float = 3600) -> list:
    """Run jobs in `procs` subprocesses that import /repo's current working tree afresh."""
    if not jobs:
        return []
    procs = max(1, min(procs, len(jobs)))
    chunks = [jobs[i::procs] for i in range(procs)]
    ps = []
    for i, ch in enumerate(chunks):
        jf, of = scratch / f'jobs_{i}_{id(jobs)}.json', scratch / f'out_{i}_{id(jobs)}.ndjson'
        json.dump(ch, open(jf, 'w'))
        e = rig_env(env[i % len(env)] if isinstance(env, list) else env)
        tmpd = scratch / f'tmp_{i}'
        tmpd.mkdir(exist_ok=True)
        e['TMPDIR'] = str(tmpd)
        p = subprocess.Popen([PY, '-m', module, str(jf), str(of)], cwd=str(scratch), env=e,
                             stdout=subprocess.DEVNULL, stderr=open(scratch / f'err_{i}.txt', 'w'))
        ps.append((p, jf, of, i))
    out = []
    deadline = time.time() + timeout
    for p, jf, of, i in ps:
        try:
            p.wait(timeout=max(1, deadline - time.time()))
        except subprocess.TimeoutExpired:
            p.kill()
            raise tlc.TLCMachineryError('rig subprocess timed out')
        got = []
        if of.exists():
            for line in open(of):
                got.append(json.loads(line))
        hard = [g for g in got if 'hard limit' in str(g.get('error', ''))]
        if hard and module == 'lv.rigs.worker_main':
            # one execution blocked the rig process beyond its hard limit (no watchdog of the rig could end it): it is
            # judged as an execution that never ended, and the jobs behind it run in a fresh process
            from lv import monitor
            ids = [j['id'] for j in chunks[i]]
            k = ids.index(hard[0]['tid'])
            stuck = chunks[i][k]
            synth = monitor.to_monitor(stuck['id'], stuck['cfg'], [
                {'e': 'outcome', 'kind': 'hang', 'exc': 'RigHang', 'cause': '', 'keys': [], 'vals': []},
                {'e': 'obs_cache', 'cached': [], 'vals': []}, {'e': 'obs_marks', 'insts': []}, {'e': 'obs_logs', 'delivered': []}],
                ctxkeys=None)
            synth['meta'] = {'skipped': 0, 'defaulted': 0, 'lines': 0, 'ints': 0, 'events': 1, 'hard_limit': True}
            got = [g for g in got if g is not hard[0]] + [synth]
            rest = chunks[i][k + 1:]
            if rest:
                got += run_jobs(rest, scratch, procs=1, env=env, module=module, timeout=max(60, deadline - time.time()))
            # (results of expanded sweep jobs carry their own ids: only count plain jobs)
            chunks[i] = [j for j in chunks[i] if not j.get('sweep')]
            got_ids = {g['tid'] for g in got}
            missing = [j['id'] for j in chunks[i] if j['id'] not in got_ids]
            if missing:
                raise tlc.TLCMachineryError(f'rig subprocess {i}: no result for {missing[:3]} after a hard-limit restart')
            out += got
            jf.unlink(missing_ok=True)
            of.unlink(missing_ok=True)
            continue
        if len(got) < len(chunks[i]):
            err = open(scratch / f'err_{i}.txt').read()[-3000:]
            raise tlc.TLCMachineryError(f'rig subprocess {i} produced {len(got)} of {len(chunks[i])} results '
                                        f'(exit {p.returncode})\n{err}')
        out += got
        jf.unlink(missing_ok=True)
        of.unlink(missing_ok=True)
    errs = [o for o in out if 'error' in o]
    if errs:
        raise tlc.TLCMachineryError(f'{len(errs)} rig jobs failed, first: {errs[0]["tid"]}\n{errs[0]["error"]}')
    order = {j['id']: k for k, j in enumerate(jobs)}
    out.sort(key=lambda o: (order.get(o['tid'], order.get(o['tid'].rsplit('-L', 1)[0], 0)), o['tid']))
    return out


def validate_parallel(traces: list, scratch: Path, *, props: str = 'ALL', batch: int = 0, par: int = NPROC) -> dict:
    """Monitor all traces; batches run as separate TLC processes in parallel."""
    if batch <= 0:
        batch = max(50, -(-len(traces) // par))
    batches = [traces[i:i + batch] for i in range(0, len(traces), batch)]
    verdicts, states, gen = {}, 0, 0
    t0 = time.time()

    def one(b):
        payload = [{'tid': t['tid'], 'cfg': t['cfg'], 'ev': t['ev']} for t in b]
        return monitor.validate(payload, scratch, props=props)
    with ThreadPoolExecutor(max_workers=max(1, min(par, len(batches) or 1))) as ex:
        for r in ex.map(one, batches):
            verdicts.update(r['verdicts'])
            states += r['states']
            gen += r['generated']
    return {'verdicts': verdicts, 'states': states, 'generated': gen, 'wall_s': time.time() - t0}


# ------------------------------------------------------------------ TLC on LabRun
def write_cfgs(cfgs: list, scratch: Path, name: str = 'cfgs') -> Path:
    p = scratch / f'{name}_{len(cfgs)}_{random.getrandbits(32)}.json'
    tlc.dump_json(p, cfgs)
    return p


def labrun_cfg_text(*, invariants: Iterable[str], properties: Iterable[str] = (), max_int: int = 0,
                    allow_die: bool = True, record: bool = False, spec: str = 'Spec', logs: bool = False,
                    grow: bool = False) -> str:
    lines = ['CONSTANTS', f'  Grow = {"TRUE" if grow else "FALSE"}', f'  Logs = {"TRUE" if logs else "FALSE"}', f'  RecordHist = {"TRUE" if record else "FALSE"}', f'  MaxInt = {max_int}',
             f'  AllowDie = {"TRUE" if allow_die else "FALSE"}', f'SPECIFICATION {spec}']
    lines += [f'INVARIANT {i}' for i in invariants]
    lines += [f'PROPERTY {p}' for p in properties]
    return '\n'.join(lines) + '\n'


def model_check(cfgs: list, cfg_text: str, scratch: Path, *, workers=NPROC, heap='8g', timeout=3000,
                coverage=False, module='LabRun', tag='mc') -> tlc.TLCResult:
    f = write_cfgs(cfgs, scratch)
    try:
        r = tlc.run_tlc(module, 'gen.cfg', scratch=scratch, workers=workers, heap=heap, env={'LV_CFGS': str(f)},
                        timeout=timeout, coverage=coverage, tag=tag, cfg_text=cfg_text)
    finally:
        f.unlink(missing_ok=True)
    return r


def simulate_schedules(cfgs: list, scratch: Path, *, num: int, depth: int = 120, seed: int = 0, max_int: int = 0,
                       allow_die: bool = True, parts: int = 8) -> list:
    """Random behaviours of LabRun over `cfgs`; returns [(cfg index (0-based), hist, exit)], de-duplicated."""
    if not cfgs or num <= 0:
        return []
    f = write_cfgs(cfgs, scratch, 'simcfgs')
    text = labrun_cfg_text(invariants=['PrintSchedule'], max_int=max_int, allow_die=allow_die, record=True)
    per = max(1, num // parts)

    def one(i):
        return tlc.run_tlc('LabRun', 'gensim.cfg', scratch=scratch, workers=1, heap='2g', env={'LV_CFGS': str(f)},
                           simulate=f'num={per}', depth=depth, seed=seed * 1000 + i + 1, tag=f'sim{i}', timeout=1800,
                           cfg_text=text)
    seen, out = set(), []
    try:
        with ThreadPoolExecutor(max_workers=parts) as ex:
            for r in ex.map(one, range(parts)):
                if r.error:
                    raise tlc.TLCMachineryError(f'simulation failed: {r.error}')
                for p in r.prints:
                    d = json.loads(p)
                    key = (d['ci'], json.dumps(d['hist']))
                    if key not in seen:
                        seen.add(key)
                        out.append((d['ci'] - 1, d['hist'], d['exit']))
    finally:
        f.unlink(missing_ok=True)
    return out


# ------------------------------------------------------------------ verdicts, findings, evidence
def load_known() -> list:
    p = VERIF / 'known_findings.json'
    if not p.exists():
        return []
    return json.load(open(p)).get('findings', [])


def prop_of(clause: str) -> str:
    return clause.split('_', 1)[0]


def write_replay(prop: str, payload: dict) -> Path:
    d = VERIF / 'replays' / prop
    d.mkdir(parents=True, exist_ok=True)
    h = hashlib.sha1(json.dumps(payload, sort_keys=True, default=str).encode()).hexdigest()[:12]
    p = d / f'{h}.json'
    json.dump(payload, open(p, 'w'), indent=1, default=str)
    return p


def write_evidence(prop: str, tier: str, seed: int, level: str, coverage: dict, wall_s: float, violations: int,
                   assumptions: list) -> None:
    if REPO != Path('/repo'):
        return          # a run against a scratch copy (seeded change, benign change) is not evidence
    d = VERIF / 'evidence'
    d.mkdir(exist_ok=True)
    ev = {'property_id': prop, 'tier': tier, 'seed': seed, 'level': level, 'coverage': coverage,
          'assumptions': assumptions, 'wall_s': round(wall_s, 2), 'violations': violations}
    tmp = d / f'.{prop}.json.tmp'
    json.dump(ev, open(tmp, 'w'), indent=1, default=str)
    os.replace(tmp, d / f'{prop}.json')


class Report:
    """Collects what a check found and turns it into exit code, VIOLATION / KNOWN-FINDING lines."""

    def __init__(self, prop: str):
        self.prop = prop
        self.violations: list = []      # (finding id, description, replay payload)
        self.known_hits: dict = {}
        self.notes: list = []
        self.known = [k for k in load_known() if k['property'] == prop and k.get('status') == 'open']

    def violation(self, fid: str, what: str, payload: dict):
        for k in self.known:
            if k['id'] == fid:
                self.known_hits.setdefault(fid, k)
                return
        self.violations.append((fid, what, payload))

    def finish(self) -> int:
        for fid, k in sorted(self.known_hits.items()):
            print(f'KNOWN-FINDING: property={self.prop} {fid}: {k["what"]}')
        seen = set()
        for fid, what, payload in self.violations:
            if fid in seen:
                continue
            seen.add(fid)
            if len(seen) > 5:
                break
            path = write_replay(self.prop, payload)
            print(f'VIOLATION property={self.prop} replay={path}')
            print(f'  {fid}: {what}')
        return 1 if self.violations else 0
