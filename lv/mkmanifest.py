"""Regenerate MANIFEST.json from the table below (python -m lv.mkmanifest)."""
from __future__ import annotations

import json
import subprocess
from pathlib import Path

VERIF = Path(__file__).resolve().parent.parent

LABRUN_NOTE = ('Trusted: TLC; the hook placement of DESIGN 5.1 (events are emitted at the linearization points); '
               'the universe task types of lv/universe; bounded model (3-4 tasks, <= 3 types); R2 executes worker '
               'thunks at process start on virtual processes, R3 samples real processes.')

SAVE_NOTE = ('Trusted: TLC; pickle/json/sha1; the kernel decides which buffered bytes survive a kill (half-writes are forced '
             'explicitly); injection happens at the Storage API / IO object level and at executed labtech lines.')

HIST_NOTE = ('Trusted: TLC; structural comparison of values; histories bounded to 3-4 calls over 3-4 task universes; '
             'the universe task types of lv/universe.')

VAL_NOTE = ('Trusted: TLC; sha1 and json.dumps injective on distinct trees; scalars are a fixed pool of typed atoms; grammar bounded '
            '(depth <= 3, <= 2 elements per collection).')

PURE_NOTE = ('Trusted: TLC; POSIX path semantics (C18) / regular-expression parsing of the rendered diagram (C20); bounded grammars.')

CHECKS = {
    'C01': ('LabRunAbs C01_Keys/C01_Values/C01_Digest: TLC checks them on LabRun (all DAGs on 3 tasks x request lists x '
            'cache pre-states x backends x worker counts) through the refinement mapping, then every execution of the real '
            'code driven along TLC-generated schedules (R2 virtual processes, serial, R3 real fork/spawn) is judged by the '
            'property-level monitor.', '6 (C01)'),
    'C02': ('LabRunAbs C02_SubmitAfterDeps/RunAfterDeps/StartAfterSubmit (step properties) and C02_RealResult, incl. failing '
            'dependencies; model-checked on LabRun, then monitored on executions of the real code under TLC schedules.', '6 (C02)'),
    'C03': ('LabRunAbs C03_OnlyNeeded/AtMostOnce/LoadIffCached/OutcomeStable/Marked over all pre-cached subsets x requested '
            'lists x bust_cache; model-checked, then monitored on real executions (instance marking observed on the object graph).', '6 (C03)'),
    'C04': ('LabRunAbs C04_Workers/C04_Type in every state of LabRun (deaths, multi-completion batches) and on every event '
            'of recorded executions (parent accounting in R2, real run() overlap in R3).', '6 (C04)'),
    'C05': ('LabRunAbs C05_AtRest (the property\'s second sentence verbatim) at every resting point of the model and of '
            'recorded executions; the at-rest marker is the coordinator\'s own liveness sample.', '6 (C05)'),
    'C09': ('TaskValues: every accepted case is run once under a caching Lab sharing one storage with all other cases, types and '
            'another cache format; cached_tasks is called for every type; TaskValuesObs checks C09_Reconstruct, C09_ListedOnce (exactly '
            'once, same key, stored result_meta, re-running loads the stored result) and C09_NoForeign; CacheHistoryTrace adds C09_Listing '
            'after every call of every replayed history.', '6 (C09)'),
    'C10': ('LabRunAbs C10_* for every subset of failing tasks (exception) and every death pattern the schedules contain, '
            'both continue_on_failure values; model-checked, then monitored on real executions on all three backends.', '6 (C10)'),
    'C11': ('Safety C11_NoIdleWait / C11_NoSpin (monitor) plus TLC liveness <>Terminated under fairness on LabRun; hangs of '
            'the real code are decided from the coordinator\'s own poll events, not from clocks.', '6 (C11)'),
    'C06': ('CacheHistory (the Lab as a plain map over time): TLC enumerates all Run/Uncache histories up to the bound over small '
            'universes; sampled histories are replayed on real Labs (providers x cache formats x serial/fork/spawn; later calls in '
            'fresh interpreters under other hash seeds); CacheHistoryTrace recomputes each call on the map and checks '
            'C06_NoRunOnHit / LoadReturnsStored / MetaPreserved / CachedAfterRun against what was returned and observable.', '6 (C06)'),
    'C07': ('TaskValues: TLC checks Deser(Ser(v)) = v (hence key injectivity), idempotent normalisation and type-distinguishing keys '
            'over the whole bounded grammar (raw trees x 8 task types incl. same-named / prefix-named / subclass / multi-parameter / inheriting types, reserved dict keys, enum members as dict keys, an enum class nested in another class) '
            'and emits every case; the real code computes each case\'s cache_key (also after pickling, rebuilding, reconstruction, and in '
            'fresh interpreters under other hash seeds); TaskValuesObs checks C07_Deterministic / C07_Distinct (pairwise) / C07_StorageAccepts.', '6 (C07)'),
    'C08': ('Same machinery, formulas C08_RunExecutesWhatItNeeds / MapEvolution / EntryValues / NothingElseStored (and C09_Listing): '
            'after every call is_cached of every task, cached_tasks per type, a load of every entry and the key count must equal '
            'the map model; cache=None types, Lab(storage=None), LocalStorage and an fsspec-backed storage.', '6 (C08)'),
    'C12': ('SaveProtocol NoPoison after every single Raise: TLC model-checks the save protocol (first save, overwrite); on the '
            'code, the k-th storage/IO operation and the k-th executed line of the save path raise, for every k, over result '
            'shapes x cache formats x first/overwrite x providers; SaveProtocol!ObsPoison judges what a later Lab observes.', '6 (C12)'),
    'C13': ('SaveProtocol NoPoison after every single Kill: same model; on the code a real worker process kills itself at the '
            'k-th operation / line / half-way through a write (with and without flush), SIGKILL and SIGTERM, fork and spawn; a '
            'later Lab observes is_cached / cached_tasks / load / re-run.', '6 (C13)'),
    'C14': ('LabRunAbs C14_ExitClass/NoStartAfterInterrupt/RunningFinish/RunningCached/CacheConsistent with 0-2 interrupts at every '
            'coordinator location of LabRun; on the code: KeyboardInterrupt injected at every line boundary of serial runs '
            '(exhaustive), sampled boundaries and double interrupts on virtual processes, TLC-placed interrupts, and real '
            'SIGINT (single, double, to the process group) at resting points of real fork/spawn runs.', '6 (C14)'),
    'C15': ('TaskValues: TLC checks Norm over the grammar incl. unsupported kinds and non-string keys; every case is constructed with '
            'the real code: TaskValuesObs checks C15_AcceptReject (TaskError iff Norm rejects), C15_Normalised (observed tree = Norm), '
            'C15_Frozen, C15_EqHash, C15_Deps and C15_Pickle (copy equal, same key and dependencies, post_init state, no context/results).', '6 (C15)'),
    'C16': ('LabRunAbs C16_Env: facts recorded inside run() on real serial/fork/spawn runs (pid, parent, thread, visibility of a '
            'parent-mutated global, fresh import) and the filtered context, judged by the monitor; stored entries compared '
            'between two runs under different contexts.', '6 (C16)'),
    'C18': ('LocalPaths: TLC checks, for every key / filename token sequence (dot segments, separators, empty strings, absolute paths, '
            'names of symlinks pointing outside, to siblings, dangling) x every mode, that the transcribed validation + symlink resolution '
            'confines what exists / file_handle / delete touch; every case is replayed on the real LocalStorage in a fresh sandbox with an '
            'audit hook and snapshots; LocalPathsObs evaluates ObsConfined on the observed touched set.', '6 (C18)'),
    'C19': ('LabRunAbs C19_ExactlyOnce: TLC checks the log-queue design in LabRun (records precede the outcome, drains before '
            'and after the wait); on the code, emitted logger records / stdout / stderr lines vs what the caller\'s handlers '
            'received, on virtual and real processes, every print/flush pattern of the family.', '6 (C19)'),
    'C17': ('LabRunAbs C17_Retained/Prompt/Captured/EmptyAtReturn/OnlyNew with failures; the runner\'s held set is logged '
            'by hooks after every completion and release.', '6 (C17)'),
    'C20': ('TaskDiagram: TLC checks that the transcribed work-list traversal of TaskStructure.build yields exactly the reachable types and '
            '<<from, parameter, to, many>> relationships for every input of the grammar (shared and duplicated dependencies, collections '
            'nested to depth 3); the real build_task_diagram output is parsed back and judged by TaskDiagramObs (one block per type with all '
            'parameters and run(), one arrow per relationship, "many" exactly when expected, deterministic across interpreters).', '6 (C20)'),
}


def main():
    ids = [json.loads(l)['id'] for l in open(VERIF / 'properties.jsonl')]
    hooks = subprocess.run(['git', '-C', '/repo', 'log', '--format=%h %s'], capture_output=True, text=True).stdout
    hook_commits = [l.split()[0] for l in hooks.splitlines() if l.split(' ', 1)[1].startswith('verif hooks')]
    checks = []
    for pid, (text, ref) in CHECKS.items():
        checks.append({
            'property_id': pid,
            'quick_cmd': f'./check {pid} --tier quick',
            'thorough_cmd': f'./check {pid} --tier thorough',
            'evidence_file': f'/verif/evidence/{pid}.json',
            'replay_cmd_template': './check --replay {path}',
            'engine': 'tlc-save' if pid in ('C12', 'C13') else ('tlc-history' if pid in ('C06', 'C08') else ('tlc-values' if pid in ('C07', 'C09', 'C15') else ('tlc-pure' if pid in ('C18', 'C20') else 'tlc-labrun'))),
            'level_claimed': {'category': 'model_checking', 'text': text, 'design_ref': f'DESIGN.md section {ref}'},
            'level_note': SAVE_NOTE if pid in ('C12', 'C13') else (HIST_NOTE if pid in ('C06', 'C08') else (VAL_NOTE if pid in ('C07', 'C09', 'C15') else (PURE_NOTE if pid in ('C18', 'C20') else LABRUN_NOTE))),
            'technique': ('explicit TLA+ spec (SaveProtocol) model-checked with TLC + exhaustive fault/crash injection into the real save, observations judged by the spec (SaveObs)'
                          if pid in ('C12', 'C13') else
                          'explicit TLA+ spec (CacheMap/CacheHistory) explored with TLC; TLC-generated call histories replayed on real Labs and validated call by call against the spec (CacheHistoryTrace)'
                          if pid in ('C06', 'C08') else
                          'explicit TLA+ spec (TaskValues: grammar + transcribed Norm/Ser/Deser/DepsOf) checked with TLC over the whole bounded grammar; every case replayed on the real code and judged by the observation spec (TaskValuesObs)'
                          if pid in ('C07', 'C09', 'C15') else
                          'explicit TLA+ spec (LocalPaths / TaskDiagram: bounded grammar + transcribed algorithm + property-level sets) checked with TLC; every case replayed on the real code and judged by the observation spec'
                          if pid in ('C18', 'C20') else
                          'explicit TLA+ spec (LabRunAbs/LabRun) model-checked with TLC + trace validation of real executions against the property-level spec, schedules generated by TLC'),
        })
    m = {
        'version': 1,
        'setup_cmd': 'true',
        'hooks': {'guard': 'LABTECH_VERIF_TRACE',
                  'enable': 'set LABTECH_VERIF_TRACE=mem (in-process sink) or =<file> before importing labtech; the rigs do this in their own subprocesses',
                  'baseline_off_cmd': 'cd /repo && /venv/bin/python -m pytest -ra -q -p no:cacheprovider --timeout=900 --continue-on-collection-errors',
                  'source_commits': hook_commits, 'add_only': True},
        'engines': [{'name': 'tlc-save', 'path': '/verif/spec/SaveProtocol.tla', 'serves_properties': ['C12', 'C13'],
                     'kind_free_text': 'TLC 1.8 on SaveProtocol/SaveObs; lv/rigs/savefault.py injects faults and crashes into the real save'},
                    {'name': 'tlc-history', 'path': '/verif/spec/CacheHistory.tla', 'serves_properties': ['C06', 'C08'],
                     'kind_free_text': 'TLC 1.8 on CacheMap/CacheHistory/CacheHistoryTrace; lv/rigs/history.py replays histories on real Labs'},
                    {'name': 'tlc-values', 'path': '/verif/spec/TaskValues.tla', 'serves_properties': ['C07', 'C09', 'C15'],
                     'kind_free_text': 'TLC 1.8 on TaskValues/TaskValuesObs; lv/rigs/values.py drives the real code through every case'},
                    {'name': 'tlc-pure', 'path': '/verif/spec/LocalPaths.tla', 'serves_properties': ['C18', 'C20'],
                     'kind_free_text': 'TLC 1.8 on LocalPaths/LocalPathsObs and TaskDiagram/TaskDiagramObs; lv/rigs/paths.py and lv/rigs/diagram.py replay every case'},
                    {'name': 'tlc-labrun', 'path': '/verif/spec/LabRun.tla', 'serves_properties': sorted(p for p in CHECKS if p not in ('C12', 'C13', 'C06', 'C08', 'C07', 'C09', 'C15', 'C18', 'C20')),
                     'kind_free_text': 'TLC 1.8 on explicit TLA+ specifications; Python rigs drive /repo along TLC behaviours and record traces'}],
        'checks': checks,
        'notes': 'see DESIGN.md; known findings and fixed defects in known_findings.json',
        'not_applicable': [{'property_id': i, 'reason': 'check not built yet (framework under construction; see DESIGN.md section 10)'}
                           for i in ids if i not in CHECKS],
    }
    json.dump(m, open(VERIF / 'MANIFEST.json', 'w'), indent=1)
    import jsonschema
    jsonschema.validate(m, json.load(open('/root/.vp/MANIFEST.schema.json')))
    print('MANIFEST ok:', len(checks), 'checks,', len(m['not_applicable']), 'not applicable')


if __name__ == '__main__':
    main()
