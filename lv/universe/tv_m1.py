"""Task types of the TaskValues grammar (spec names m1.T, m1.TX, m1.TSub)."""
import labtech

RUNS = {}


def _run(self):
    var = self.f2 if type(self).__qualname__ == 'TE' else self.f1
    key = (type(self).__module__, type(self).__qualname__, repr(var))
    RUNS[key] = RUNS.get(key, 0) + 1
    return ['tv', type(self).__qualname__, repr(var)]


@labtech.task
class T:
    f1: object

    def post_init(self):
        object.__setattr__(self, 'derived', 'derived:' + repr(self.f1))

    def run(self):
        return _run(self)


@labtech.task
class TX:
    """a type whose name has the name of T as a prefix"""
    f1: object

    def run(self):
        return _run(self)


@labtech.task
class TSub(T):
    """a subclass of T whose name has the name of T as a prefix"""

    def run(self):
        return _run(self)


@labtech.task
class T_:
    """a type whose name ends with an underscore (cache keys are '<prefix><name>__<hash>')"""
    f1: object

    def run(self):
        return _run(self)


@labtech.task
class T__V:
    """a type whose name contains a double underscore"""
    f1: object

    def run(self):
        return _run(self)


@labtech.task
class M5:
    """a type with several parameters (the others have one): four of them keep their defaults"""
    f1: object
    f2: object = 1
    f3: object = 'a'
    f4: object = None
    f5: object = 1.0

    def run(self):
        return _run(self)


@labtech.task
class TE(T):
    """a task type that extends the task type T with a parameter of its own (the grammar's value goes there)"""
    f2: object = None

    def run(self):
        return _run(self)
