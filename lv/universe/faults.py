"""Fault and crash injection into the save path (C12, C13), importable by worker processes.

The plan is a module global (inherited over fork) or the environment variable LV_FAULT_PLAN
(JSON; for spawned workers).  Operations are counted only while a save of a SaveT task is in
progress (SaveCache.save sets IN_SAVE), so the k-th operation means the k-th storage / IO
operation (or executed labtech line) *of the save*.

plan = {"mode": "record"}                                  log operation names
       {"mode": "raise", "at": k}                          the k-th storage/IO operation raises OSError
       {"mode": "kill", "at": k, "half": 0|1, "sig": 9|15} the process kills itself at the k-th operation
                                                           (half=1: after writing half of that write's bytes)
       {"mode": "line-raise" | "line-kill", "at": k}       the same at the k-th executed line of
                                                           labtech/cache.py / storage.py / serialization.py
       {"mode": "audit-record" | "audit-kill", "at": k,    the process kills itself just before the k-th *filesystem
        "order": "asc"|"desc"}                             mutation* of the save (open for writing, unlink, rmdir, mkdir,
                                                           rename, truncate under the entry's directory: also those made
                                                           inside library calls such as shutil.rmtree), with directory
                                                           listings delivered in ascending / descending name order
"""
from __future__ import annotations

import json
import os
import signal
import sys
from typing import Optional

import labtech
from labtech import _verif
from labtech.cache import BaseCache, PickleCache
from labtech.types import Storage

PLAN: Optional[dict] = None
IN_SAVE = 0
COUNT = 0
HIT = 0            # number of faults actually injected in this process
OPLOG: list = []


ACOUNT = 0
ALOG: list = []
CUR_KEY = ''


def _audit(event, args):
    """sys.addaudithook callback: counts the filesystem mutations made under the entry directory during a save."""
    global ACOUNT
    if not IN_SAVE or not CUR_KEY:
        return
    if event == 'open':
        path, _mode, flags = args
        if not isinstance(flags, int) or not (flags & (os.O_WRONLY | os.O_RDWR | os.O_CREAT | os.O_TRUNC | os.O_APPEND)):
            return
        name = 'open'
    elif event in ('os.remove', 'os.rmdir', 'os.mkdir', 'os.rename', 'os.truncate'):
        path, name = args[0], event[3:]
    else:
        return
    if not isinstance(path, (str, bytes)):
        # a path relative to a directory descriptor (shutil.rmtree): the entry name only -- still ours during a save
        path = str(path)
    path = os.fsdecode(path)
    p = plan()
    if not p or not p['mode'].startswith('audit'):
        return
    if CUR_KEY not in path and os.sep in path:
        return
    ACOUNT += 1
    ALOG.append(f'{name}:{os.path.basename(path)}')
    if p['mode'] == 'audit-kill' and p['at'] == ACOUNT:
        _die(p.get('sig', 9))


sys.addaudithook(_audit)


class _OrderedScandir:
    def __init__(self, it, reverse):
        self.entries = sorted(it, key=lambda e: e.name, reverse=reverse)
        it.close()

    def __iter__(self):
        return iter(self.entries)

    def __enter__(self):
        return self

    def __exit__(self, *a):
        return False

    def close(self):
        pass


def plan() -> Optional[dict]:
    if PLAN is not None:
        return PLAN
    env = os.environ.get('LV_FAULT_PLAN')
    return json.loads(env) if env else None


def _die(sig):
    os.kill(os.getpid(), sig)
    signal.pause()


def op(name: str, half_write=None) -> None:
    """Called before every storage / IO operation of the save."""
    global COUNT
    if not IN_SAVE:
        return
    p = plan()
    COUNT += 1
    OPLOG.append(name)
    if not p or p['mode'] not in ('raise', 'kill') or p['at'] != COUNT:
        return
    if p['mode'] == 'raise':
        global HIT
        HIT += 1
        raise OSError(f'injected fault at operation {COUNT} ({name})')
    if p.get('half') and half_write is not None:
        half_write()
    _die(p.get('sig', 9))


class FaultFile:
    """Wraps a file object returned by the inner storage; every write / flush / close is an operation."""

    def __init__(self, inner, label):
        self._f, self._label = inner, label

    def write(self, data):
        def half():
            self._f.write(data[:max(1, len(data) // 2)])
            if (plan() or {}).get('flush'):
                self._f.flush()
        op(f'write:{self._label}', half_write=half)
        return self._f.write(data)

    def flush(self):
        op(f'flush:{self._label}')
        return self._f.flush()

    def close(self):
        if not self._f.closed:
            try:
                op(f'close:{self._label}')
            except OSError:
                # a close that fails is a flush that failed: part of the data never reached the file
                try:
                    self._f.flush()
                    size = self._f.tell()
                    self._f.truncate(size // 2)
                    self._f.close()
                except Exception:   # noqa
                    pass
                raise
        return self._f.close()

    def __enter__(self):
        return self

    def __exit__(self, *a):
        try:
            self.close()
        except OSError:
            try:
                self._f.close()
            except Exception:   # noqa
                pass
            if a[0] is None:
                raise
        return False

    def __getattr__(self, name):
        return getattr(self._f, name)

    def __iter__(self):
        return iter(self._f)


class FaultStorage(Storage):
    """A Storage that delegates to another one and turns each call into a countable operation."""

    def __init__(self, inner: Storage):
        self.inner = inner

    def find_keys(self):
        op('find_keys')
        return self.inner.find_keys()

    def exists(self, key):
        op('exists')
        return self.inner.exists(key)

    def file_handle(self, key, filename, *, mode='r'):
        op(f'open:{filename}:{mode}')
        f = self.inner.file_handle(key, filename, mode=mode)
        if 'w' in mode or 'a' in mode:
            return FaultFile(f, filename)
        return f

    def delete(self, key):
        op('delete')
        return self.inner.delete(key)


class LocalFsspecStorage(labtech.storage.FsspecStorage):
    """The reference implementation given in the comments of labtech/storage.py (fsspec's local filesystem)."""

    def __init__(self, storage_dir):
        from pathlib import Path
        super().__init__(Path(storage_dir).resolve())

    def fs_constructor(self):
        from fsspec.implementations.local import LocalFileSystem
        return LocalFileSystem()


class _LineInjector:
    FILES = ('/labtech/cache.py', '/labtech/storage.py', '/labtech/serialization.py')

    def __init__(self, p):
        self.p, self.n = p, 0
        self.lines = []

    def local(self, frame, event, arg):
        if event == 'line':
            self.n += 1
            self.lines.append(f'{frame.f_code.co_filename.rsplit("/", 1)[-1]}:{frame.f_lineno}')
            if self.p['mode'] != 'line-record' and self.n == self.p['at']:
                sys.settrace(None)
                if self.p['mode'] == 'line-raise':
                    global HIT
                    HIT += 1
                    raise OSError(f'injected fault at line {self.lines[-1]}')
                _die(self.p.get('sig', 9))
        return self.local

    def tracer(self, frame, event, arg):
        fn = frame.f_code.co_filename
        if fn.endswith(self.FILES):
            return self.local
        return None


def guarded_save(cache_cls, self, storage, task, task_result):
    """Body of SaveCache.save: arm the injection for the duration of the real save."""
    global IN_SAVE, COUNT, ACOUNT, CUR_KEY
    p = plan()
    inj = None
    IN_SAVE += 1
    COUNT = 0
    ACOUNT = 0
    del OPLOG[:]
    del ALOG[:]
    CUR_KEY = task.cache_key
    real_scandir = os.scandir
    if p and p['mode'].startswith('audit') and p.get('order'):
        os.scandir = lambda *a, **k: _OrderedScandir(real_scandir(*a, **k), p['order'] == 'desc')
    _verif.emit('save_begin', t=task.tid)
    try:
        if p and p['mode'].startswith('line-'):
            inj = _LineInjector(p)
            sys.settrace(inj.tracer)
        try:
            super(cache_cls, self).save(storage, task, task_result)
        finally:
            if inj is not None:
                sys.settrace(None)
                del OPLOG[:]
                OPLOG.extend(inj.lines)
    finally:
        os.scandir = real_scandir
        if p and p['mode'].startswith('audit'):
            del OPLOG[:]
            OPLOG.extend(ALOG)
        IN_SAVE -= 1
    _verif.emit('save_end', t=task.tid)


class SavePickleCache(PickleCache):
    def save(self, storage, task, task_result):
        guarded_save(SavePickleCache, self, storage, task, task_result)


class JsonFileCache(BaseCache):
    """A second cache format (own key prefix, JSON result file) sharing the storage with PickleCache."""
    KEY_PREFIX = 'jsonf__'
    RESULT_FILENAME = 'data.json'

    def save_result(self, storage, task, result):
        f = storage.file_handle(task.cache_key, self.RESULT_FILENAME, mode='w')
        with f:
            json.dump(result, f)

    def load_result(self, storage, task):
        with storage.file_handle(task.cache_key, self.RESULT_FILENAME, mode='r') as f:
            return json.load(f)


class SaveJsonCache(JsonFileCache):
    def save(self, storage, task, task_result):
        guarded_save(SaveJsonCache, self, storage, task, task_result)


def make_value(shape: str, epoch):
    if shape == 'small':
        return {'epoch': epoch, 'pad': 'x' * 10}
    if shape == 'big':
        return {'epoch': epoch, 'pad': ['y' * 70000, 'z' * 70000, 'w' * 70000]}
    if shape == 'unpicklable':
        return {'epoch': epoch, 'pad': ['y' * 150000, (lambda: 0)]}
    raise ValueError(shape)


def _run(self):
    _verif.emit('rbegin', t=self.tid)
    return make_value(self.shape, (self.context or {}).get('epoch', -1))


def _mk(name, cache):
    ns = {'__annotations__': {'tid': int, 'shape': str}, 'shape': 'small', 'run': _run,
          '__module__': __name__, '__qualname__': name}
    cls = labtech.task(cache=cache)(type(name, (), ns))
    globals()[name] = cls
    return cls


SaveP = _mk('SaveP', SavePickleCache())
SaveJ = _mk('SaveJ', SaveJsonCache())
SAVE_TYPES = {'pickle': SaveP, 'json': SaveJ}
