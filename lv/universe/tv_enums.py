"""Enums used as task parameter atoms (spec names me.E1 ... me.E4, me.Holder.E5).  E3 and E4 mix in a scalar type: their members
are ints / strs as well (E3.ONE == 1, E4.A == 'a'), but as parameter values they are enum members."""
import enum


class E1(enum.Enum):
    A = 1
    B = 2


class E2(enum.Enum):
    A = 1


class E3(enum.IntEnum):
    ONE = 1


class E4(str, enum.Enum):
    A = 'a'


class Holder:
    """An enum defined inside another class (spec name me.Holder.E5): its qualified name has a dot."""

    class E5(enum.Enum):
        A = 1
