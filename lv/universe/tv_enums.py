"""Enums used as task parameter atoms (spec name me.E1 / me.E2)."""
import enum


class E1(enum.Enum):
    A = 1
    B = 2


class E2(enum.Enum):
    A = 1
