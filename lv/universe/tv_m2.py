"""A task type with the same name as tv_m1.T in another module (spec name m2.T)."""
import labtech

from lv.universe.tv_m1 import _run


@labtech.task
class T:
    f1: object

    def run(self):
        return _run(self)
