"""Task types of the TaskDiagram grammar (spec names d.D1, d.D2, d.D3): two parameters each (D3 inherits its two from D1); D2 and D3 are not cached (every such task has the cache key 'null')."""
from typing import Any

import labtech


@labtech.task
class D1:
    f1: Any = 1
    f2: Any = 1

    def run(self) -> int:
        return 1


@labtech.task(cache=None)
class D2:
    f1: Any = 1
    f2: Any = 1

    def run(self) -> dict[str, int]:
        return {}


@labtech.task(cache=None)
class D3(D1):
    """a task type that extends another task type: both of its parameters are inherited"""

    def run(self):
        return None
