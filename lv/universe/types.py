"""Importable task types for the rigs (module path: lv.universe.types).

One task class per (type index, max_parallel, cacheable) combination, generated
at import time: T{y}p{mp}c{0|1}.  A universe task carries

  tid   the task id used by the specifications (1..n)
  a     a single-task parameter (or None)
  b     a collection parameter (tuples / dicts nesting further dependencies)
  beh   behaviour: 'ok' | 'raise', optionally followed by log/print directives

run() returns [tid, epoch seen in the context, [values of the dependencies in
tid order]] -- the reference function Val of spec/LabRunAbs.tla -- and reports
what it observes (process facts, context, each dependency read) as trace events.
Dependencies are found with an independent walker, not with labtech's own
find_tasks_in_param.
"""
from __future__ import annotations

import logging
import multiprocessing
import os
import sys
import threading
import time
from typing import Any

import labtech
from frozendict import frozendict
from labtech import _verif
from labtech.cache import PickleCache
from labtech.types import is_task

PARENT_MARK = 'import-time'      # the rig overwrites this in the parent after import
RIG = None                       # R2: object with on_run_begin(task); None otherwise
IMPORT_PID = os.getpid()


class VirtualDeath(BaseException):
    """R2: the virtual worker process dies here."""


def walk_deps(value, out=None):
    """All tasks found anywhere in a parameter value (independent of labtech's walker)."""
    if out is None:
        out = []
    if is_task(value):
        out.append(value)
    elif isinstance(value, (list, tuple)):
        for item in value:
            walk_deps(item, out)
    elif isinstance(value, (dict, frozendict)):
        for item in value.values():
            walk_deps(item, out)
    return out


def direct_deps(task):
    seen, out = set(), []
    for d in walk_deps(task.a) + walk_deps(task.b):
        if d.tid not in seen:
            seen.add(d.tid)
            out.append(d)
    return sorted(out, key=lambda d: d.tid)


def direct_dep_instances(task):
    """Every dependency *object* in the parameters (equal but distinct instances included), in task-id order."""
    seen, out = set(), []
    for d in walk_deps(task.a) + walk_deps(task.b):
        if id(d) not in seen:
            seen.add(id(d))
            out.append(d)
    return sorted(out, key=lambda d: d.tid)


class RecCache(PickleCache):
    """PickleCache that reports loads and saves as trace events."""

    def load_result_with_meta(self, storage, task):
        if RIG is not None:
            RIG.on_run_begin(task)
        try:
            res = super().load_result_with_meta(storage, task)
        except BaseException as ex:
            _verif.emit('load', t=task.tid, ok=0, exc=type(ex).__name__, pname=multiprocessing.current_process().name)
            raise
        _verif.emit('load', t=task.tid, ok=1, v=res.value, pname=multiprocessing.current_process().name)
        return res

    def save(self, storage, task, task_result):
        _verif.emit('save_begin', t=task.tid)
        super().save(storage, task, task_result)
        _verif.emit('save_end', t=task.tid)


class RecJsonCache(RecCache):
    """A second cache format: own key prefix, JSON result file (values of universe tasks are JSON-able)."""
    KEY_PREFIX = 'jsonu__'
    RESULT_FILENAME = 'data.json'

    def save_result(self, storage, task, result):
        import json
        with storage.file_handle(task.cache_key, self.RESULT_FILENAME, mode='w') as f:
            json.dump(result, f)

    def load_result(self, storage, task):
        import json
        with storage.file_handle(task.cache_key, self.RESULT_FILENAME, mode='r') as f:
            return json.load(f)


def _gate(task):
    """R3: block inside run() until the controller releases this task."""
    gate_dir = os.environ.get('LV_GATE_DIR')
    if not gate_dir:
        return
    path = os.path.join(gate_dir, f'go.{task.tid}')
    deadline = time.time() + float(os.environ.get('LV_GATE_TIMEOUT', '60'))
    while not os.path.exists(path):
        if time.time() > deadline:
            _verif.emit('gate_timeout', t=task.tid)
            return
        time.sleep(0.002)


def _emit_logs(task):
    """beh directives after the first word: L<k> = k logger.info records, P<k> = k print lines,
    F = flush stdout after printing, E<k> = k stderr lines, W = logger.warning record, Q<k> / U<k> = k pieces of stdout /
    stderr output without a terminating newline."""
    for d in task.beh.split()[1:]:
        kind, num = d[0], int(d[1:] or 1)
        if kind == 'F':
            sys.stdout.flush()
            continue
        if kind == 'N':         # (not an output directive: run() returns None)
            continue
        for i in range(num):
            msg = f'msg:{task.tid}:{kind}:{i}'
            _verif.emit('lemit', t=task.tid, m=msg, k=kind)
            if kind == 'L':
                labtech.logger.info(msg)
            elif kind == 'W':
                labtech.logger.warning(msg)
            elif kind == 'P':
                print(msg)
            elif kind == 'E':
                print(msg, file=sys.stderr)
            elif kind == 'Q':
                print(msg, end='')                 # a line that is not (yet) terminated
            elif kind == 'U':
                sys.stderr.write(msg)
            elif kind == 'S':
                print('  ' + msg)                  # a line that begins with whitespace
            elif kind == 'V':
                sys.stderr.write('\t' + msg + '\n')


class Rich(list):
    """A list (compares and JSON-encodes as one) that can carry attributes."""


def run_body(task):
    ctx = task.context
    _verif.emit('rbegin', t=task.tid, ppid=os.getppid(), thr=threading.current_thread().name,
                main=int(threading.current_thread() is threading.main_thread()),
                mark=PARENT_MARK, impid=IMPORT_PID,
                mp_main=int('__mp_main__' in sys.modules),
                ctx=ctx_digest(ctx),
                sigint_ign=int(_sigint_ignored()), pname=multiprocessing.current_process().name)
    if RIG is not None:
        RIG.on_run_begin(task)
    try:
        _gate(task)
        vals, have = [], set()
        for d in direct_dep_instances(task):      # the result is read through every instance found in the parameters
            try:
                v = d.result
            except labtech.exceptions.TaskError:
                _verif.emit('dread', t=task.tid, d=d.tid, ok=0, v=[])
                raise
            _verif.emit('dread', t=task.tid, d=d.tid, ok=1, v=v)
            if d.tid not in have:
                have.add(d.tid)
                vals.append(v)
        _emit_logs(task)
        if task.beh.split()[0] == 'raise' or task.tid in ((ctx or {}).get('failnow') or ()):
            raise RuntimeError(f'boom {task.tid}')
        value = [task.tid, (ctx or {}).get('epoch', -1), vals]
        if 'N' in task.beh.split()[1:]:
            value = None            # a task whose run() legitimately returns None
        if os.environ.get('LV_RICH'):
            # a result that carries task objects (the task itself and its dependencies), as a result may
            value = Rich(value)
            value.owner, value.deps = task, direct_deps(task)
    except BaseException:
        _verif.emit('rend', t=task.tid, ok=0, v=[])     # run() is left by an exception (also KeyboardInterrupt)
        raise
    _verif.emit('rend', t=task.tid, ok=1, v=value)
    return value


def _sigint_ignored():
    import signal
    try:
        return signal.getsignal(signal.SIGINT) is signal.SIG_IGN
    except Exception:
        return False


def ctx_digest(ctx) -> str:
    import hashlib
    import json
    return hashlib.sha1(json.dumps(ctx, sort_keys=True, default=str).encode()).hexdigest()[:12]


def _filter2(self, context):
    """per-parameter subset; for the tasks named in LV_EMPTY_CTX the parameter selects nothing at all"""
    if str(self.tid) in os.environ.get('LV_EMPTY_CTX', '').split(','):
        return {}
    return {k: v for k, v in context.items() if k in ('epoch', 'failnow', f'k{self.tid}')}


def _filter3(self, context):
    """a projection that is not idempotent: applying it twice gives something else"""
    return {'epoch': context.get('epoch'), 'failnow': context.get('failnow'), 'sel': sorted(context), 'n': len(context)}


class _SubsetFilterMixin:
    filter_context = _filter2


def ctx_filter_for(y):
    """Type 1: identity (labtech's default).  Type 2: per-parameter subset.  Type 3: non-idempotent projection."""
    return {2: _filter2, 3: _filter3}.get(y)


class _T:
    def __init__(self, tid):
        self.tid = tid


def expected_ctx_keys(y, tid, lab_ctx):
    """Digest of what the declared filter of type y yields, applied once to the Lab's context."""
    f = ctx_filter_for(y)
    ctx = dict(lab_ctx)
    return ctx_digest(f(_T(tid), ctx) if f else ctx)


TYPES: dict = {}


def _make(y, mp, c):
    name = f'T{y}p{"N" if mp is None else mp}c{c}'
    ns = {'__annotations__': {'tid': int, 'a': Any, 'b': Any, 'beh': str},
          'a': None, 'b': (), 'beh': 'ok', 'run': run_body, '__module__': __name__, '__qualname__': name}
    flt = ctx_filter_for(y)
    bases = ()
    if flt is not None and y == 2:
        bases = (_SubsetFilterMixin,)          # type 2 *inherits* its filter (from a plain mixin class)
    elif flt is not None:
        ns['filter_context'] = flt
    cls = type(name, bases, ns)
    cls = labtech.task(cache=({1: RecCache, 2: RecJsonCache}[c]() if c else None), max_parallel=mp)(cls)
    globals()[name] = cls
    TYPES[(y, mp, c)] = cls


for _y in (1, 2, 3):
    for _mp in (1, 2, 3, None):
        for _c in (0, 1, 2):
            _make(_y, _mp, _c)


def _make_prefixed():
    """A type whose name has the name of type 1 (unlimited, pickle cache) as a prefix, contains a double underscore and
    ends with an underscore: T1pNc1__x_ next to T1pNc1."""
    name = 'T1pNc1__x_'
    ns = {'__annotations__': {'tid': int, 'a': Any, 'b': Any, 'beh': str},
          'a': None, 'b': (), 'beh': 'ok', 'run': run_body, '__module__': __name__, '__qualname__': name}
    cls = labtech.task(cache=RecCache(), max_parallel=None)(type(name, (), ns))
    globals()[name] = cls
    TYPES[('1x', None, 1)] = cls


_make_prefixed()


# ---- "twins": tasks of one type without a tid field, told apart only by the value (or the type of the value) of
# their single parameter.  1, 1.0 and True are equal in Python but are different parameter values; the two dicts
# differ only in one value.  The spec-level task id is derived from the parameter.
TWIN_VALUES = [1, 1.0, True, {'depth': 1, 'kind': 'tree'}, {'depth': 2, 'kind': 'tree'}, float('nan')]


def twin_id(x):
    from frozendict import frozendict
    for i, v in enumerate(TWIN_VALUES):
        if isinstance(v, float) and v != v:
            if isinstance(x, float) and x != x:
                return i + 1
            continue
        if isinstance(v, dict):
            if isinstance(x, (dict, frozendict)) and dict(x) == v and all(type(x[k]) is type(v[k]) for k in v):
                return i + 1
        elif type(x) is type(v) and x == v:
            return i + 1
    return 0


def _twin_make():
    ns = {'__annotations__': {'x': Any}, 'run': run_body, '__module__': __name__, '__qualname__': 'TwinT',
          'tid': property(lambda self: twin_id(self.x)), 'a': property(lambda self: None), 'b': property(lambda self: ()),
          'beh': property(lambda self: 'ok')}
    cls = labtech.task(cache=RecCache())(type('TwinT', (), ns))
    globals()['TwinT'] = cls
    return cls


TwinT = _twin_make()
