"""Implementation-level trace validation (spec/LabRunTrace.tla): is every recorded execution a behaviour of LabRun?

The raw events of an execution (hooks of /repo + the rig's own environment steps) are projected onto the events the
trace specification pairs with LabRun's actions.  Pure renaming / filtering; set-valued fields and runs of adjacent
`died` events are put in task-id order (their order in the code is dictionary order, which LabRun does not model).
"""
from __future__ import annotations

import json
from pathlib import Path

from lv import tlc

KEEP = ('plan', 'ready', 'submit', 'pstart', 'sample', 'consume', 'died', 'yield', 'complete', 'removed', 'int',
        'cancelled', 'stopped', 'closed', 'outcome', 'w_fin', 'w_exit', 'w_die')


def project(raw: list) -> list:
    ev = []
    for r in raw:
        k = r['e']
        if k not in KEEP:
            continue
        if k == 'plan':
            ev.append({'e': k, 'pending': r['pending'], 'ddeps': sorted([t, sorted(ds)] for t, ds in r['ddeps'])})
        elif k == 'ready':
            ev.append({'e': k, 'tasks': r['tasks']})
        elif k == 'submit':
            ev.append({'e': k, 't': r['t'], 'uc': r['uc']})
        elif k in ('pstart', 'died', 'w_fin', 'w_exit', 'w_die'):
            ev.append({'e': k, 't': r['t']})
        elif k == 'sample':
            ev.append({'e': k, 'dead': sorted(r['dead'])})
        elif k == 'consume':
            ev.append({'e': k, 't': r['t'], 'ok': r['ok']})
        elif k == 'yield':
            ev.append({'e': k, 't': r['t'], 'cancelled': r['cancelled']})
        elif k == 'complete':
            ev.append({'e': k, 't': r['t'], 'ok': r['ok'], 'held': sorted(r['held'])})
        elif k in ('removed', 'closed'):
            ev.append({'e': k, 'held': sorted(r['held'])})
        elif k == 'outcome':
            ev.append({'e': k, 'kind': r['kind'], 'exc': r['exc'] if r['kind'] != 'return' else ''})
        else:
            ev.append({'e': k})
    # runs of adjacent died events in task order
    i = 0
    while i < len(ev):
        j = i
        while j < len(ev) and ev[j]['e'] == 'died':
            j += 1
        if j - i > 1:
            ev[i:j] = sorted(ev[i:j], key=lambda e: e['t'])
        i = max(j, i + 1)
    return ev


def validate(items: list, scratch: Path, *, heap: str = '3g', timeout: float = 3600) -> dict:
    """items: [{'tid', 'cfg', 'raw'}].  Returns {tid: {'n', 'reached', 'ended', 'pcs', 'next'}} and statistics."""
    scratch = Path(scratch)
    if not items:
        return {'verdicts': {}, 'states': 0}
    cf = scratch / f'icfgs_{id(items)}.json'
    tf = scratch / f'itraces_{id(items)}.ndjson'
    projected = [project(it['raw']) for it in items]
    # dependencies in the order the task's parameters mention them (LabRun plans in that order)
    tlc.dump_json(cf, [dict(it['cfg'], deps=it['dep_order']) if it.get('dep_order') else it['cfg'] for it in items])
    tlc.dump_ndjson(tf, [{'tid': it['tid'], 'ev': ev} for it, ev in zip(items, projected)])
    r = tlc.run_tlc('LabRunTrace', 'LabRunTrace.cfg', scratch=scratch, workers=1, heap=heap,
                    env={'LV_CFGS': str(cf), 'LV_ITRACES': str(tf)}, timeout=timeout, tag='conf')
    cf.unlink(missing_ok=True)
    tf.unlink(missing_ok=True)
    if r.error or r.violated:
        raise tlc.TLCMachineryError(f'LabRunTrace failed: {r.error or r.violated}\n{r.out[-3000:]}')
    out = {}
    by_tid = {it['tid']: ev for it, ev in zip(items, projected)}
    for p in r.prints:
        d = json.loads(p)
        ev = by_tid[d['tid']]
        d['next'] = ev[d['reached']] if d['reached'] < len(ev) else None
        d['accepted'] = bool(d['reached'] == d['n'] and d['ended'])
        out[d['tid']] = d
    if len(out) != len(items):
        raise tlc.TLCMachineryError(f'{len(out)} conformance verdicts for {len(items)} traces\n{r.out[-2000:]}')
    return {'verdicts': out, 'states': r.distinct, 'generated': r.generated, 'wall_s': r.wall_s}
