#!/bin/sh
# Cross matrix: every stored seeded change of a group against every check of the group (not only its own).
# An alarm of a check other than the owner's must be a genuine violation of that other property (DESIGN 8.1).
# usage: tools/crossmatrix.sh "<seed ids>" "<check ids>"      (scratch worktrees under /tmp/xm, removed afterwards)
seeds="$1"; checks="$2"
here=$(cd "$(dirname "$0")/.." && pwd)
mkdir -p /tmp/xm
for s in $seeds; do
  wt=/tmp/xm/$s
  git -C /repo worktree add -q --detach $wt HEAD || continue
  git -C $wt apply $here/seeded/$s/patch.diff || { echo "$s: patch does not apply"; git -C /repo worktree remove --force $wt; continue; }
  for p in $checks; do
    t0=$(date +%s)
    LV_REPO=$wt nice -n 10 $here/check $p --tier quick > /tmp/xm/out_${s}_$p.txt 2>&1; rc=$?
    echo "$s x $p rc=$rc wall=$(( $(date +%s) - t0 ))s :: $(grep -A1 -m1 VIOLATION /tmp/xm/out_${s}_$p.txt | tail -n 1 | cut -c1-260)"
  done
  git -C /repo worktree remove --force $wt
done
