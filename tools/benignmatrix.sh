#!/bin/sh
# Behaviour-preserving changes (benign/patchN.diff) against every check: none may raise an alarm or fail.
# usage: tools/benignmatrix.sh "<patch numbers>" "<check ids>"
nums="$1"; checks="$2"
here=$(cd "$(dirname "$0")/.." && pwd)
mkdir -p /tmp/xb
for n in $nums; do
  wt=/tmp/xb/b$n
  git -C /repo worktree add -q --detach $wt HEAD || continue
  git -C $wt apply $here/benign/patch$n.diff || { echo "patch$n does not apply"; git -C /repo worktree remove --force $wt; continue; }
  for p in $checks; do
    t0=$(date +%s)
    LV_REPO=$wt nice -n 10 $here/check $p --tier quick > /tmp/xb/out_${n}_$p.txt 2>&1; rc=$?
    echo "benign$n x $p rc=$rc wall=$(( $(date +%s) - t0 ))s :: $(grep -A1 -m1 'VIOLATION\|MACHINERY' /tmp/xb/out_${n}_$p.txt | tail -n 1 | cut -c1-260)"
  done
  git -C /repo worktree remove --force $wt
done
