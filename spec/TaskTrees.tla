------------------------------ MODULE TaskTrees ------------------------------
(***************************************************************************)
(* Task parameter values, cache keys and reconstruction (C07, C09, C15).   *)
(*                                                                         *)
(* A value is a tag-first node <<kind, atom, children>> (atom is always a  *)
(* string, children always a sequence of nodes, so two nodes are always    *)
(* comparable):                                                            *)
(*   scalars   "none" "str" "bool" "int" "float" "enum"   (atom = repr)    *)
(*   raw       "list" "tuple" "dict" "fdict"  (dicts: children = k1, v1,   *)
(*             k2, v2, ... ; keys are nodes too, so non-string keys exist) *)
(*   "task"    atom = "module.QualName", children = the field values       *)
(*   unsupported kinds: "set" "bytes" "obj"                                *)
(*                                                                         *)
(* IMPLEMENTATION LEVEL, transcribed from the code:                        *)
(*   Norm     tasks.immutable_param_value (-> value or a "reject" node)    *)
(*   Ser      serialization.Serializer.serialize_value / serialize_task    *)
(*   Deser    deserialize_value / deserialize_task followed by the task    *)
(*            constructor's normalisation                                  *)
(*   DepsOf   tasks.find_tasks_in_param / get_direct_dependencies          *)
(* PROPERTY LEVEL: the relations the properties state -- SameBuild, key    *)
(* injectivity (via Deser(Ser(v)) = v), idempotence of Norm, accept/reject *)
(* -- checked by TLC over the whole bounded grammar, and the observation   *)
(* predicates used by TaskValuesObs on what the real code does with the    *)
(* very same cases.                                                        *)
(***************************************************************************)
EXTENDS Naturals, Sequences, FiniteSets, TLC, Json, SequencesExt

N(k, a, c) == <<k, a, c>>
Kind(v) == v[1]
Atom(v) == v[2]
Kids(v) == v[3]

ScalarKinds == {"none", "str", "bool", "int", "float", "enum"}
(* dict keys: strings -- and a member of a str-mixin enum IS a str instance, so it is accepted as a key and kept; json writes *)
(* its string content, == and hash agree with that content, so as a KEY it is the string (KC: keys reduced to their content)  *)
StrEnumKeys == {N("enum", "me.E4.A", <<>>)}
IsStrKey(k) == Kind(k) = "str" \/ k \in StrEnumKeys
KeyStr(k) == IF k = N("enum", "me.E4.A", <<>>) THEN "a" ELSE Atom(k)
RECURSIVE KC(_)
KC(v) == N(Kind(v), Atom(v), [i \in DOMAIN Kids(v) |-> IF Kind(v) \in {"dict", "fdict"} /\ i % 2 = 1
                                                      THEN N("str", KeyStr(Kids(v)[i]), <<>>) ELSE KC(Kids(v)[i])])
IsRej(v) == Kind(v) = "reject"
Rej(path) == N("reject", path, <<>>)

(* ---- Norm: immutable_param_value ---- *)
RECURSIVE Norm(_, _)
FirstRej(s) == LET R == {i \in DOMAIN s : IsRej(s[i])} IN s[CHOOSE i \in R : \A j \in R : i <= j]
Norm(path, v) ==
  CASE Kind(v) \in {"list", "tuple"} ->
         LET cs == [i \in DOMAIN Kids(v) |-> Norm(path \o "[]", Kids(v)[i])] IN
         IF \E i \in DOMAIN cs : IsRej(cs[i]) THEN FirstRej(cs) ELSE N("tuple", "", cs)
    [] Kind(v) \in {"dict", "fdict"} ->
         LET ks == Kids(v)
             cs == [i \in DOMAIN ks |->
                      IF i % 2 = 1
                      THEN (IF IsStrKey(ks[i]) THEN ks[i] ELSE Rej(path \o "<key>"))
                      ELSE Norm(path \o "{}", ks[i])] IN
         IF \E i \in DOMAIN cs : IsRej(cs[i]) THEN FirstRej(cs) ELSE N("fdict", "", cs)
    [] Kind(v) \in ScalarKinds \cup {"task"} -> v          \* a task object normalised its own fields when it was built
    [] OTHER -> Rej(path)

Accepts(v) == ~IsRej(Norm("p", v))

(* ---- Ser: serialize_value (JSON trees: jnull jstr jbool jint jfloat jlist jobj) ---- *)
JStr(s) == N("jstr", s, <<>>)
JTrue == N("jbool", "True", <<>>)
ReservedKeys == {"_is_task", "_is_enum", "_is_dict"}
HasReservedKey(v) == \E i \in DOMAIN Kids(v) : i % 2 = 1 /\ KeyStr(Kids(v)[i]) \in ReservedKeys

EnumClass(a) == CHOOSE c \in {"me.E1", "me.E2", "me.E3", "me.E4", "me.Holder.E5"} : \E i \in 1..Len(a) : SubSeq(a, 1, i) = c
EnumMember(a) == SubSeq(a, Len(EnumClass(a)) + 2, Len(a))

RECURSIVE Ser(_)
SerPairs(ks) == [i \in DOMAIN ks |-> IF i % 2 = 1 THEN JStr(KeyStr(ks[i])) ELSE Ser(ks[i])]
Ser(v) ==
  CASE Kind(v) = "task" ->
         N("jobj", "", <<JStr("_is_task"), JTrue, JStr("__class__"), JStr(Atom(v))>>
                       \o [i \in 1..(2 * Len(Kids(v))) |->
                             IF i % 2 = 1 THEN JStr("f" \o ToString((i + 1) \div 2)) ELSE Ser(Kids(v)[i \div 2])])
    [] Kind(v) = "tuple" -> N("jlist", "", [i \in DOMAIN Kids(v) |-> Ser(Kids(v)[i])])
    [] Kind(v) = "fdict" ->
         IF HasReservedKey(v)       \* a parameter dict that uses a reserved key is wrapped, so that it cannot be mistaken
         THEN N("jobj", "", <<JStr("_is_dict"), JTrue, JStr("items"), N("jobj", "", SerPairs(Kids(v)))>>)
         ELSE N("jobj", "", SerPairs(Kids(v)))
    [] Kind(v) = "enum" ->
         N("jobj", "", <<JStr("_is_enum"), JTrue, JStr("__class__"), JStr(EnumClass(Atom(v))),
                         JStr("name"), JStr(EnumMember(Atom(v)))>>)
    [] OTHER -> N("j" \o Kind(v), Atom(v), <<>>)

(* ---- Deser: deserialize_value, then the constructor's normalisation of what it returns ---- *)
JGet(j, key) == LET ks == Kids(j)
                    I == {i \in DOMAIN ks : i % 2 = 1 /\ Atom(ks[i]) = key} IN
                IF I = {} THEN N("missing", "", <<>>) ELSE ks[(CHOOSE i \in I : TRUE) + 1]
JHas(j, key) == Kind(j) = "jobj" /\ JGet(j, key) = JTrue

RECURSIVE Deser(_)
DeserPairs(ks) == [i \in DOMAIN ks |-> IF i % 2 = 1 THEN N("str", Atom(ks[i]), <<>>) ELSE Deser(ks[i])]
Deser(j) ==
  CASE JHas(j, "_is_task") ->
         LET ks == Kids(j)  nf == (Len(ks) - 4) \div 2 IN
         N("task", Atom(JGet(j, "__class__")), [i \in 1..nf |-> Deser(ks[4 + 2 * i])])
    [] JHas(j, "_is_enum") /\ ~JHas(j, "_is_task") ->
         N("enum", Atom(JGet(j, "__class__")) \o "." \o Atom(JGet(j, "name")), <<>>)
    [] JHas(j, "_is_dict") /\ ~JHas(j, "_is_task") /\ ~JHas(j, "_is_enum") ->
         N("fdict", "", DeserPairs(Kids(JGet(j, "items"))))
    [] Kind(j) = "jlist" -> N("tuple", "", [i \in DOMAIN Kids(j) |-> Deser(Kids(j)[i])])
    [] Kind(j) = "jobj" -> N("fdict", "", DeserPairs(Kids(j)))
    [] OTHER -> N(SubSeq(Kind(j), 2, Len(Kind(j))), Atom(j), <<>>)

(* ---- dependencies: find_tasks_in_param over the fields, de-duplicated in order of first appearance ---- *)
RECURSIVE TasksIn(_)
RECURSIVE Flat(_)
Flat(s) == IF s = <<>> THEN <<>> ELSE Head(s) \o Flat(Tail(s))
TasksIn(v) ==
  CASE Kind(v) = "task" -> <<v>>
    [] Kind(v) \in {"tuple", "list"} -> Flat([i \in DOMAIN Kids(v) |-> TasksIn(Kids(v)[i])])
    [] Kind(v) \in {"fdict", "dict"} -> Flat([i \in DOMAIN Kids(v) |-> IF i % 2 = 1 THEN <<>> ELSE TasksIn(Kids(v)[i])])
    [] OTHER -> <<>>
(* Python equality: True == 1 == 1.0 (and False == 0 == 0.0), so tasks that differ only in that way compare equal and count *)
(* as one dependency (get_direct_dependencies collects into an ordered set); the first one found is kept.                 *)
RECURSIVE Canon(_)
Canon(v) == IF Kind(v) \in {"bool", "int", "float"}
            THEN N("num", IF Atom(v) \in {"True", "1", "1.0"} THEN "1" ELSE IF Atom(v) \in {"False", "0", "0.0", "-0.0"} THEN "0" ELSE Atom(v), <<>>)
            ELSE IF v = N("enum", "me.E3.ONE", <<>>) THEN N("num", "1", <<>>)        \* an IntEnum member equals its int value,
            ELSE IF v = N("enum", "me.E4.A", <<>>) THEN N("str", "a", <<>>)           \* a str-mixin member its str value
            ELSE N(Kind(v), Atom(v), [i \in DOMAIN Kids(v) |-> Canon(Kids(v)[i])])
RECURSIVE DedupSeq(_, _)
DedupSeq(s, acc) == IF s = <<>> THEN acc
                    ELSE DedupSeq(Tail(s), IF \E i \in DOMAIN acc : Canon(acc[i]) = Canon(Head(s)) THEN acc ELSE Append(acc, Head(s)))
DepsOf(t) == DedupSeq(Flat([i \in DOMAIN Kids(t) |-> TasksIn(Kids(t)[i])]), <<>>)

(* ---- building a task from raw field values: the value the constructor yields, or a reject node ---- *)
DefaultFields(ty) == IF ty = "m1.M5"        \* a type with five parameters, four of which keep their declared defaults
                     THEN <<N("int", "1", <<>>), N("str", "a", <<>>), N("none", "None", <<>>), N("float", "1.0", <<>>)>>
                     ELSE <<>>
InheritedFields(ty) == IF ty = "m1.TE"      \* a task type extending the task type m1.T: T's parameter (fixed) precedes its own
                       THEN <<N("int", "1", <<>>)>> ELSE <<>>
Build(ty, raws) ==
  LET k == Len(InheritedFields(ty))
      fs == [i \in DOMAIN raws |-> Norm("f" \o ToString(i + k), raws[i])] IN
  IF \E i \in DOMAIN fs : IsRej(fs[i]) THEN FirstRej(fs) ELSE N("task", ty, InheritedFields(ty) \o fs \o DefaultFields(ty))

(* property level: two tasks are "built the same way" iff they have the same type identity and the same normalised fields *)
SameBuild(t1, t2) == t1 = t2
Key(t) == Ser(t)              \* sha1 and json.dumps are trusted to be injective on distinct trees

-----------------------------------------------------------------------------
(* ---- the bounded grammar ---- *)
Atoms == { N("none", "None", <<>>), N("str", "a", <<>>), N("str", "", <<>>), N("str", "1", <<>>),
           N("bool", "True", <<>>), N("int", "1", <<>>), N("float", "1.0", <<>>), N("int", "0", <<>>), N("float", "-0.0", <<>>),
           N("enum", "me.E1.A", <<>>), N("enum", "me.E1.B", <<>>), N("enum", "me.E2.A", <<>>),
           N("enum", "me.E3.ONE", <<>>), N("enum", "me.E4.A", <<>>),        \* members of scalar-mixin enums (IntEnum, str + Enum)
           N("enum", "me.Holder.E5.A", <<>>) }                               \* a member of an enum class defined inside another class
SmallAtoms == { N("str", "a", <<>>), N("int", "1", <<>>), N("bool", "True", <<>>), N("enum", "me.E1.A", <<>>) }
Unsupported == { N("set", "", <<>>), N("bytes", "b", <<>>), N("obj", "", <<>>) }
KeyNodes == { N("str", "k", <<>>), N("str", "_is_task", <<>>), N("str", "__class__", <<>>), N("str", "_is_enum", <<>>),
              N("str", "name", <<>>), N("int", "1", <<>>), N("str", "_is_dict", <<>>), N("str", "items", <<>>),
              N("enum", "me.E4.A", <<>>), N("enum", "me.E1.A", <<>>) }       \* enum members as keys: str-mixin (a str) / plain (rejected)
Types == {"m1.T", "m2.T", "m1.TX", "m1.TSub", "m1.T_", "m1.T__V", "m1.M5", "m1.TE"}       \* same-named type in another module; prefix-named type and subclass; names with trailing / double underscore

Seqs(S, n) == UNION {[1..k -> S] : k \in 0..n}
Colls(S) ==                                   \* raw collections over the element set S
  {N(k, "", c) : k \in {"list", "tuple"}, c \in Seqs(S, 2)}
  \cup {N(k, "", <<>>) : k \in {"dict", "fdict"}}
  \cup {N(k, "", <<key, val>>) : k \in {"dict", "fdict"}, key \in KeyNodes, val \in S}
  \cup {N("dict", "", <<k1, v1, k2, v2>>) : k1 \in {N("str", "k", <<>>), N("str", "_is_task", <<>>), N("str", "_is_enum", <<>>), N("str", "_is_dict", <<>>)},
                                            k2 \in {N("str", "__class__", <<>>), N("str", "name", <<>>), N("str", "items", <<>>)}, v1 \in {N("bool", "True", <<>>)},
                                            v2 \in {N("str", "m1.T", <<>>), N("str", "A", <<>>), N("dict", "", <<N("str", "k", <<>>), N("int", "1", <<>>)>>)}}
Raw1 == Atoms \cup Unsupported \cup Colls(SmallAtoms \cup Unsupported)
LeafTasks == {Build(ty, <<a>>) : ty \in {"m1.T", "m2.T", "m1.TX"},
                                 a \in {N("int", "1", <<>>), N("float", "1.0", <<>>), N("bool", "True", <<>>), N("str", "a", <<>>),
                                        N("enum", "me.E3.ONE", <<>>)}}
Raw2 == Raw1 \cup LeafTasks \cup Colls(LeafTasks \cup {N("int", "1", <<>>)})
        \cup {N("tuple", "", <<c>>) : c \in Colls({N("int", "1", <<>>), N("enum", "me.E1.A", <<>>)} \cup
                                                   {Build("m1.T", <<N("int", "1", <<>>)>>)})}
        \* the dict a nested task serialises to, written out by hand as a parameter value
        \cup {N("dict", "", <<N("str", "_is_task", <<>>), N("bool", "True", <<>>), N("str", "__class__", <<>>), N("str", "m1.T", <<>>),
                               N("str", "f1", <<>>), N("int", "1", <<>>)>>),
              N("dict", "", <<N("str", "_is_enum", <<>>), N("bool", "True", <<>>), N("str", "__class__", <<>>), N("str", "me.E1", <<>>),
                               N("str", "name", <<>>), N("str", "A", <<>>)>>)}

Cases == {<<ty, raw>> : ty \in Types, raw \in Raw2}

-----------------------------------------------------------------------------
(* ---- what TLC checks over the whole grammar ---- *)
Accepted == {Build(c[1], <<c[2]>>) : c \in {x \in Cases : ~IsRej(Build(x[1], <<x[2]>>))}}

P_RoundTrip == \A t \in Accepted : Deser(Ser(t)) = KC(t)                      \* hence Ser (the key) is injective
P_NormIdempotent == \A c \in Cases : LET n == Norm("p", c[2]) IN IsRej(n) \/ Norm("p", n) = n
P_DepsDefined == \A t \in Accepted : \A i \in DOMAIN DepsOf(t) : Kind(DepsOf(t)[i]) = "task"
P_KeysDistinguishTypes == \A t1, t2 \in {x \in Accepted : Kids(x)[1] = N("int", "1", <<>>)} : Key(t1) = Key(t2) => KC(t1) = KC(t2)
=============================================================================
