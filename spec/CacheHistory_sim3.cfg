CONSTANTS
  MaxLen = 3
  Emit = TRUE
SPECIFICATION Spec
INVARIANT OnlyCacheableStored
INVARIANT StoredValuesWellFormed
INVARIANT PrintHistory
PROPERTY OnlyOwnEntryChanges
