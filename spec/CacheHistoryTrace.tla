-------------------------- MODULE CacheHistoryTrace --------------------------
(***************************************************************************)
(* Judge of histories replayed on real Labs (lv/rigs/history.py).  The     *)
(* file named by LV_TRACES holds one JSON object per line:                 *)
(*   [tid, u, ops]   u = the universe, ops = the calls with what the real  *)
(*                   Lab returned and what was observable afterwards       *)
(* For every call the map model of CacheHistory computes what a plain map  *)
(* would return and contain; formulas named C06_... / C08_... / C09_...    *)
(* compare that with the observation.  Failing formulas are collected per  *)
(* trace in TLC registers (run with -workers 1) and printed at the end.    *)
(***************************************************************************)
EXTENDS CacheMap, Json, IOUtils, SequencesExt

Traces == ndJsonDeserialize(IOEnv.LV_TRACES)

VARIABLES tr, l, ms      \* trace, number of calls consumed, model state [store, clock]
tvars == <<tr, l, ms>>

Ops == Traces[tr].ops
U == Traces[tr].u

Tok(e, t) == IF \E i \in DOMAIN e.metas : e.metas[i][1] = t
             THEN (CHOOSE x \in SetOf(e.metas) : x[1] = t)[2] ELSE "none"

FailOf(e) == SetOf(e.fail)
(* a call that raised (continue_on_failure=False and a task failed) stops at a schedule-dependent point: what it *)
(* stored is taken from what is observable afterwards (entries with their stored value and metadata)             *)
Resync(e) == [t \in TasksOf(U) |->
                IF \E i \in DOMAIN e.entryvals : e.entryvals[i][1] = t
                THEN LET x == CHOOSE y \in SetOf(e.entryvals) : y[1] = t IN [val |-> x[2], meta |-> x[3]]
                ELSE <<>>]
After(e) ==
  IF e.op = "run"
  THEN [store |-> IF e.raised # "" THEN Resync(e)
                  ELSE StoreAfterRunF(U, ms.store, e.req, e.bust, ms.clock + 1, LAMBDA t : Tok(e, t), FailOf(e)),
        clock |-> ms.clock + 1]
  ELSE [store |-> StoreAfterUncache(U, ms.store, SetOf(e.ts)), clock |-> ms.clock]

TInit == /\ tr \in 1..Len(Traces)
         /\ l = 0
         /\ ms = [store |-> [t \in TasksOf(Traces[tr].u) |-> <<>>], clock |-> 0]

TNext == /\ l < Len(Ops)
         /\ l' = l + 1
         /\ tr' = tr
         /\ ms' = After(Ops[l + 1])

TSpec == TInit /\ [][TNext]_tvars

-----------------------------------------------------------------------------
(* formulas over one call e = Ops[l + 1], the model state before (ms) and after (ms') *)
E == Ops[l + 1]
IsRun == E.op = "run" /\ E.raised = ""        \* a call that returned
IsAnyRun == E.op = "run"
Ex == Executed(U, ms.store, E.req, E.bust)
Ld == Loaded(U, ms.store, E.req, E.bust)
NoDup(s) == Cardinality(SetOf(s)) = Len(s)

C06_NoRunOnHit == IsAnyRun => SetOf(E.exec) \cap Ld = {}
C06_LoadReturnsStored ==
  IsRun => /\ E.ret_keys = RetKeys(U, ms.store, E.req, E.bust, FailOf(E))
           /\ Len(E.ret_vals) = Len(E.ret_keys)
           /\ \A i \in DOMAIN E.ret_keys : E.ret_vals[i] = ValOf(U, ms.store, E.bust, ms.clock + 1, E.ret_keys[i])
C06_MetaPreserved == IsRun => \A t \in Ld : Tok(E, t) # "none" => Tok(E, t) = ms.store[t].meta
C06_CachedAfterRun == IsRun => \A t \in OkExecuted(U, ms.store, E.req, E.bust, FailOf(E)) : CacheableIn(U, t) => t \in SetOf(E.cached)
C08_RunExecutesWhatItNeeds == IsRun => SetOf(E.exec) = Ex /\ SetOf(E.loads) = Ld /\ NoDup(E.exec) /\ NoDup(E.loads)
(* C03 over several calls on the same Lab: what is executed / loaded in each call is exactly what the map says is needed *)
C03_ExecutesExactlyWhatIsNeeded == IsRun => SetOf(E.exec) = Ex /\ SetOf(E.loads) = Ld /\ NoDup(E.exec) /\ NoDup(E.loads)
C03_NoRunOnHit == IsAnyRun => SetOf(E.exec) \cap Ld = {}
(* ... and the instances are marked with *the* outcome: a loaded task with the outcome stored for it, an executed one with *)
(* the outcome that is in the cache afterwards                                                                            *)
C03_MarkedOutcome ==
  IsRun => /\ \A t \in Ld : Tok(E, t) # "none" => Tok(E, t) = ms.store[t].meta
           /\ \A i \in DOMAIN E.entryvals :
                 LET t == E.entryvals[i][1] IN
                 (t \in OkExecuted(U, ms.store, E.req, E.bust, FailOf(E)) /\ Tok(E, t) # "none") => E.entryvals[i][3] = Tok(E, t)
C08_MapEvolution == SetOf(E.cached) = {t \in TasksOf(U) : Has(ms'.store, t)}
C08_EntryValues == \A i \in DOMAIN E.entryvals :
                      LET t == E.entryvals[i][1] IN
                      Has(ms'.store, t) /\ E.entryvals[i][2] = ms'.store[t].val /\ E.entryvals[i][3] = ms'.store[t].meta
C08_NothingElseStored == E.nkeys = Cardinality({t \in TasksOf(U) : Has(ms'.store, t)})
C09_Listing == \A y \in DOMAIN E.listed :
                 /\ SetOf(E.listed[y]) = {t \in TasksOf(U) : Has(ms'.store, t) /\ U.typ[t] = y}
                 /\ NoDup(E.listed[y])

(* cached_tasks is the map's key set, per type and for one call naming every type in either order (twins: the   *)
(* listing de-duplication of equal tasks is C09's business, the universe of twins is left to C09_Listing)       *)
Stored == {t \in TasksOf(U) : Has(ms'.store, t)}
C08_Listing == /\ \A y \in DOMAIN E.listed : SetOf(E.listed[y]) = {t \in Stored : U.typ[t] = y} /\ NoDup(E.listed[y])
               /\ "listed_all" \in DOMAIN E => /\ SetOf(E.listed_all) = Stored /\ NoDup(E.listed_all)
                                               /\ SetOf(E.listed_rev) = Stored /\ NoDup(E.listed_rev)

Names == {"C08_Listing", "C03_MarkedOutcome", "C03_ExecutesExactlyWhatIsNeeded", "C03_NoRunOnHit", "C06_NoRunOnHit", "C06_LoadReturnsStored", "C06_MetaPreserved", "C06_CachedAfterRun",
          "C08_RunExecutesWhatItNeeds", "C08_MapEvolution", "C08_EntryValues", "C08_NothingElseStored", "C09_Listing"}
Holds(c) ==
  CASE c = "C03_ExecutesExactlyWhatIsNeeded" -> C03_ExecutesExactlyWhatIsNeeded [] c = "C03_NoRunOnHit" -> C03_NoRunOnHit
    [] c = "C06_NoRunOnHit" -> C06_NoRunOnHit [] c = "C06_LoadReturnsStored" -> C06_LoadReturnsStored
    [] c = "C06_MetaPreserved" -> C06_MetaPreserved [] c = "C06_CachedAfterRun" -> C06_CachedAfterRun
    [] c = "C08_RunExecutesWhatItNeeds" -> C08_RunExecutesWhatItNeeds [] c = "C08_MapEvolution" -> C08_MapEvolution
    [] c = "C08_EntryValues" -> C08_EntryValues [] c = "C08_NothingElseStored" -> C08_NothingElseStored
    [] c = "C09_Listing" -> C09_Listing [] c = "C08_Listing" -> C08_Listing [] c = "C03_MarkedOutcome" -> C03_MarkedOutcome

ASSUME \A i \in 1..Len(Traces) : TLCSet(i, [fails |-> {}, reached |-> 0])

CheckStep ==
  LET cur == TLCGet(tr)
      bad == {c \in Names : ~Holds(c)}
      new == {c \in bad : \A p \in cur.fails : p[1] # c} IN
  TLCSet(tr, [fails |-> cur.fails \cup {<<c, l'>> : c \in new},
              reached |-> IF cur.reached < l' THEN l' ELSE cur.reached])

Verdicts ==
  \A i \in 1..Len(Traces) :
     PrintT("@@" \o ToJson([tid |-> Traces[i].tid, n |-> Len(Traces[i].ops), reached |-> TLCGet(i).reached,
                            fails |-> SetToSeq(TLCGet(i).fails)]))
=============================================================================
