SPECIFICATION Spec
CONSTRAINT CheckState
ACTION_CONSTRAINT CheckStep
POSTCONDITION Verdicts
CHECK_DEADLOCK FALSE
