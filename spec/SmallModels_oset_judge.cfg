CONSTANTS
  MaxLen = 0
  Which = "oset"
SPECIFICATION Spec
POSTCONDITION JudgePost
