CONSTANTS
  MaxLen = 4
  Which = "oset"
SPECIFICATION Spec
INVARIANT NoDupItems
INVARIANT DeliveredNeverBlank
INVARIANT EmitHistory
PROPERTY NothingDeliveredTwice
