CONSTANTS
  MaxLen = 4
  Which = "proxy"
SPECIFICATION Spec
INVARIANT NoDupItems
INVARIANT DeliveredNeverBlank
INVARIANT EmitHistory
PROPERTY NothingDeliveredTwice
