----------------------------- MODULE TaskDiagram -----------------------------
(***************************************************************************)
(* The task diagram shows every reachable type and relationship (C20).     *)
(*                                                                         *)
(* Tasks are the tag-first nodes of TaskTrees with two fields (f1, f2).    *)
(* PROPERTY LEVEL: for a list of tasks,                                    *)
(*   Reach      all tasks reachable through parameters at any depth        *)
(*   ExpTypes   their types                                                *)
(*   ExpRels    <<from type, parameter, to type, many>> for every task of  *)
(*              Reach and every task found anywhere inside one of its      *)
(*              parameter values; many iff for that (from, parameter, to)  *)
(*              some task of Reach holds a collection in that parameter    *)
(* IMPLEMENTATION LEVEL: TaskStructure.build -- a work list seeded with    *)
(* the given tasks; Pop takes the first, records its type, adds one        *)
(* relationship per task found in each field (or-ing the many flag), and   *)
(* appends the found tasks to the work list.  TLC checks that the terminal *)
(* state of the traversal equals the property level for every input of the *)
(* bounded grammar, and emits the inputs with the expected sets.           *)
(***************************************************************************)
EXTENDS TaskTrees

DT == {"d.D1", "d.D2", "d.D3"}
One == N("int", "1", <<>>)
Fields == <<"f1", "f2">>

(* ---- property level ---- *)
SubTasks(t) == UNION {{TasksIn(Kids(t)[i])[j] : j \in DOMAIN TasksIn(Kids(t)[i])} : i \in DOMAIN Kids(t)}
RECURSIVE ReachFrom(_, _)
ReachFrom(S, fuel) == LET S2 == S \cup UNION {SubTasks(t) : t \in S} IN
                      IF S2 = S \/ fuel = 0 THEN S ELSE ReachFrom(S2, fuel - 1)
Reach(inp) == ReachFrom({inp[i] : i \in DOMAIN inp}, 6)
ExpTypes(inp) == {Atom(t) : t \in Reach(inp)}
RelsOf(t) == UNION {{<<Atom(t), Fields[i], Atom(TasksIn(Kids(t)[i])[j]), Kind(Kids(t)[i]) # "task">> :
                       j \in DOMAIN TasksIn(Kids(t)[i])} : i \in DOMAIN Kids(t)}
RawRels(inp) == UNION {RelsOf(t) : t \in Reach(inp)}
ExpRels(inp) == {<<r[1], r[2], r[3], (\E q \in RawRels(inp) : q[1] = r[1] /\ q[2] = r[2] /\ q[3] = r[3] /\ q[4])>> : r \in RawRels(inp)}

(* ---- implementation level: the work-list traversal ---- *)
RECURSIVE Walk(_, _, _, _)
AddRel(rels, r) ==      \* rels: function from <<from, param, to>> to the many flag
  LET k == <<r[1], r[2], r[3]>> IN
  IF k \in DOMAIN rels THEN [rels EXCEPT ![k] = @ \/ r[4]] ELSE [x \in DOMAIN rels \cup {k} |-> IF x = k THEN r[4] ELSE rels[x]]
RECURSIVE AddRels(_, _)
AddRels(rels, rs) == IF rs = <<>> THEN rels ELSE AddRels(AddRel(rels, Head(rs)), Tail(rs))
FieldRels(t, i) == [j \in DOMAIN TasksIn(Kids(t)[i]) |->
                      <<Atom(t), Fields[i], Atom(TasksIn(Kids(t)[i])[j]), Kind(Kids(t)[i]) # "task">>]
Walk(queue, types, rels, fuel) ==
  IF queue = <<>> \/ fuel = 0 THEN [types |-> types, rels |-> rels, done |-> queue = <<>>]
  ELSE LET t == Head(queue)
           found == TasksIn(Kids(t)[1]) \o TasksIn(Kids(t)[2]) IN
       Walk(Tail(queue) \o found, types \cup {Atom(t)},
            AddRels(AddRels(rels, FieldRels(t, 1)), FieldRels(t, 2)), fuel - 1)
BuildResult(inp) == Walk(inp, {}, [x \in {} |-> FALSE], 400)
ResRels(res) == {<<k[1], k[2], k[3], res.rels[k]>> : k \in DOMAIN res.rels}

(* ---- the bounded grammar of inputs ---- *)
Leafs == {N("task", ty, <<One, One>>) : ty \in DT}
Vals1 == {One} \cup Leafs \cup {N("tuple", "", <<l>>) : l \in Leafs} \cup {N("tuple", "", <<a, b>>) : a, b \in Leafs}
         \cup {N("tuple", "", <<N("tuple", "", <<l>>)>>) : l \in Leafs} \cup {N("fdict", "", <<N("str", "k", <<>>), l>>) : l \in Leafs}
         \cup {N("tuple", "", <<One, l>>) : l \in Leafs}                   \* a collection that begins with a scalar
         \cup {N("tuple", "", <<N("tuple", "", <<One, l>>)>>) : l \in Leafs}
Mids == {N("task", ty, <<v, One>>) : ty \in DT, v \in Vals1}
        \cup {N("task", ty, <<l, v>>) : ty \in DT, l \in {CHOOSE x \in Leafs : Atom(x) = "d.D3"}, v \in Vals1 \ {One}}
MidsSmall == {m \in Mids : Kids(m)[2] = One /\ Kids(m)[1] \in (Leafs \cup {N("tuple", "", <<l>>) : l \in Leafs})}
Vals2(m) == {m, N("tuple", "", <<m>>), N("tuple", "", <<m, CHOOSE x \in Leafs : Atom(x) = "d.D1">>),
             N("fdict", "", <<N("str", "a", <<>>), N("tuple", "", <<m>>)>>)}
Tops == {N("task", ty, <<v, w>>) : ty \in DT, v \in UNION {Vals2(m) : m \in MidsSmall}, w \in {One, CHOOSE x \in Leafs : Atom(x) = "d.D2"}}
Inputs == {<<t>> : t \in Mids \cup Tops} \cup {<<a, b>> : a, b \in MidsSmall} \cup {<<>>}
          \cup {<<a, b>> : a \in {t \in Tops : Kids(t)[2] = One /\ Atom(t) = "d.D1"}, b \in Leafs}

(* As a state machine: one initial state per input; Pop is one iteration of the loop of TaskStructure.build. *)
VARIABLES din, dq, dty, drl
dvars == <<din, dq, dty, drl>>
DInit == din \in Inputs /\ dq = din /\ dty = {} /\ drl = [x \in {} |-> FALSE]
Pop == /\ dq # <<>>
       /\ LET t == Head(dq) IN
            /\ dq' = Tail(dq) \o TasksIn(Kids(t)[1]) \o TasksIn(Kids(t)[2])
            /\ dty' = dty \cup {Atom(t)}
            /\ drl' = AddRels(AddRels(drl, FieldRels(t, 1)), FieldRels(t, 2))
       /\ UNCHANGED din
DSpec == DInit /\ [][Pop]_dvars /\ WF_dvars(Pop)
I_TerminalMatches == dq = <<>> => (dty = ExpTypes(din) /\ {<<k[1], k[2], k[3], drl[k]>> : k \in DOMAIN drl} = ExpRels(din))
I_NeverTooMuch == dty \subseteq ExpTypes(din) /\ \A k \in DOMAIN drl : \E r \in ExpRels(din) : r[1] = k[1] /\ r[2] = k[2] /\ r[3] = k[3]
Terminates == <>(dq = <<>>)
DummySpec == DInit /\ [][UNCHANGED dvars]_dvars
DummyInv == TRUE
ASSUME PrintT(<<"inputs", Cardinality(Inputs)>>)

EmitInputs(x) == \A inp \in Inputs : x >= 0 /\
   PrintT("@@" \o ToJson([inp |-> inp, types |-> SetToSeq(ExpTypes(inp)), rels |-> SetToSeq(ExpRels(inp))]))
EmitInputsPost == EmitInputs(TLCGet("distinct"))
=============================================================================
