SPECIFICATION CaseSpec
POSTCONDITION JudgePost
