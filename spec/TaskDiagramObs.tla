---------------------------- MODULE TaskDiagramObs ----------------------------
(***************************************************************************)
(* Observation specification for C20.  LV_OBS: per input of the            *)
(* TaskDiagram grammar, what build_task_diagram rendered, parsed back into *)
(* class blocks, member lines and arrows (lv/rigs/diagram.py).  The        *)
(* expected sets are recomputed here from the input (ExpTypes, ExpRels).   *)
(*   C20_Classes   exactly one class block per reachable type              *)
(*   C20_Members   every block lists both parameters and a run() line      *)
(*   C20_Arrows    exactly one arrow per expected relationship, "many"     *)
(*                 exactly when expected                                   *)
(*   C20_Deterministic  same text twice in-process and in fresh            *)
(*                 interpreters under other hash seeds                     *)
(***************************************************************************)
EXTENDS TaskDiagram, IOUtils

Obs == ndJsonDeserialize(IOEnv.LV_OBS)
SetOfSeq(s) == {s[i] : i \in DOMAIN s}
NoDupSeq(s) == Cardinality(SetOfSeq(s)) = Len(s)

C20_Classes(o) == ~o.render_error /\ NoDupSeq(o.classes) /\ SetOfSeq(o.classes) = ExpTypes(o.inp) /\ o.unparsed = <<>>
C20_Members(o) == /\ SetOfSeq(o.params) = {<<ty, f>> : ty \in ExpTypes(o.inp), f \in {"f1", "f2"}} /\ NoDupSeq(o.params)
                  /\ SetOfSeq(o.runs) = ExpTypes(o.inp) /\ NoDupSeq(o.runs)
C20_Arrows(o) == NoDupSeq(o.arrows) /\ SetOfSeq(o.arrows) = ExpRels(o.inp)
C20_Deterministic(o) == o.deterministic

Fails(o) == (IF C20_Classes(o) THEN {} ELSE {"C20_Classes"}) \cup (IF C20_Members(o) THEN {} ELSE {"C20_Members"})
            \cup (IF C20_Arrows(o) THEN {} ELSE {"C20_Arrows"}) \cup (IF C20_Deterministic(o) THEN {} ELSE {"C20_Deterministic"})

Verdicts == \A k \in 1..Len(Obs) :
              TLCGet("distinct") >= 0 /\ PrintT("@@" \o ToJson([id |-> Obs[k].id, fails |-> SetToSeq(Fails(Obs[k]))]))
=============================================================================
