----------------------------- MODULE TaskValues -----------------------------
(***************************************************************************)
(* TaskTrees (values, Norm / Ser / Deser / DepsOf, the bounded grammar)    *)
(* explored as a state space: one initial state per case <<type, raw>>.    *)
(* See TaskTrees.tla for the definitions and TaskValuesObs.tla for the     *)
(* judgement of what the real code does with the same cases.               *)
(***************************************************************************)
EXTENDS TaskTrees

(* As a state space: one initial state per case of the grammar; the invariants are the per-case properties. *)
VARIABLE case
CaseSpec == case \in Cases /\ [][UNCHANGED case]_case
CaseTask == Build(case[1], <<case[2]>>)
I_RoundTrip == ~IsRej(CaseTask) => Deser(Ser(CaseTask)) = KC(CaseTask)                    \* hence Ser (the key) is injective
I_NormIdempotent == LET n == Norm("p", case[2]) IN IsRej(n) \/ Norm("p", n) = n
I_DepsAreTasks == ~IsRej(CaseTask) => \A i \in DOMAIN DepsOf(CaseTask) : Kind(DepsOf(CaseTask)[i]) = "task"
I_RejectHasPath == IsRej(CaseTask) => Atom(CaseTask) # ""
DummySpec == CaseSpec
DummyInv == TRUE
ASSUME P_KeysDistinguishTypes
ASSUME PrintT(<<"grammar", Cardinality(Cases), "accepted", Cardinality(Accepted)>>)
(* with LV_EMIT_CASES = "1" every case of the grammar is printed as JSON for the harness *)
EmitCases(x) == \A c \in Cases : x >= 0 /\ PrintT("@@" \o ToJson(c))
EmitPost == EmitCases(TLCGet("distinct"))
=============================================================================
