---------------------------- MODULE LocalPathsObs ----------------------------
(***************************************************************************)
(* Observation specification for C18: LV_OBS holds, per replayed case, the *)
(* paths the real LocalStorage operation touched (audit hook + snapshots,  *)
(* lv/rigs/paths.py).  Verdict: the touched set is Confined (nothing       *)
(* outside S, at most one direct child of S and the files directly inside  *)
(* it; a delete may touch that child's whole tree and removes at most that *)
(* one directory).  Drift: error/success or the touched set differ from    *)
(* the implementation-level model of LocalPaths.                           *)
(***************************************************************************)
EXTENDS LocalPaths, IOUtils

Obs == ndJsonDeserialize(IOEnv.LV_OBS)

SetOfSeq(s) == {s[i] : i \in DOMAIN s}
Outside(p) == p[1] = "<outside>" \/ ~Under(p, S) \/ p = S
ObsConfined(o) ==
  LET T == SetOfSeq(o.touched) IN
  /\ \A p \in T : ~Outside(p)
  /\ ConfinedStrict(T, o.op \in {"delete", "mut:delete"})
Drift(o) == o.err # o.model_err \/ SetOfSeq(o.touched) # SetOfSeq(o.model_touched)

Verdicts ==
  \A k \in 1..Len(Obs) :
    TLCGet("distinct") >= 0 /\
    PrintT("@@" \o ToJson([id |-> Obs[k].id, confined |-> ObsConfined(Obs[k]), drift |-> Drift(Obs[k])]))
=============================================================================
