--------------------------- MODULE LabRunAbsTrace ---------------------------
(***************************************************************************)
(* The property level as a MONITOR over executions recorded from the real  *)
(* code.  The file named by the environment variable LV_TRACES holds one    *)
(* JSON object per line: [tid, cfg, ev] -- an identifier, the              *)
(* configuration of the run (same shape as in LabRun.tla) and the recorded *)
(* events in linearization order.                                          *)
(*                                                                         *)
(* Each event updates the abstract variables of LabRunAbs; the update is   *)
(* total (no guards), so a trace is never stuck.  After every event all    *)
(* state formulas of LabRunAbs are evaluated on the new state and all step *)
(* formulas on the step; for every trace the names of the formulas that    *)
(* were false, with the first position at which each was false, are kept   *)
(* in a TLC register and printed by the POSTCONDITION.  A recorded         *)
(* execution violates property Cxx iff a formula named Cxx_... is listed.  *)
(*                                                                         *)
(* Run with -workers 1 (registers), CHECK_DEADLOCK FALSE.                  *)
(***************************************************************************)
EXTENDS Naturals, Sequences, FiniteSets, TLC, Json, IOUtils, SequencesExt

Traces == ndJsonDeserialize(IOEnv.LV_TRACES)

VARIABLES tr,   \* which trace
          l,    \* number of events consumed
          st    \* the abstract state, one record field per variable of LabRunAbs

tvars == <<tr, l, st>>

Abs == INSTANCE LabRunAbs WITH
  cfg <- st.cfg, phase <- st.phase, exc <- st.exc, subCount <- st.subCount, viaCache <- st.viaCache,
  slot <- st.slot, inrun <- st.inrun, nslot <- st.nslot, nrun <- st.nrun, runCount <- st.runCount, loadCount <- st.loadCount,
  fin <- st.fin, done <- st.done, died <- st.died, held <- st.held, captured <- st.captured,
  dig <- st.dig, reads <- st.reads, atrest <- st.atrest, intCount <- st.intCount,
  outKeys <- st.outKeys, outVals <- st.outVals, lateStart <- st.lateStart, idlePolls <- st.idlePolls,
  cachedNow <- st.cachedNow, cacheVals <- st.cacheVals, obsCache <- st.obsCache, envok <- st.envok,
  marks <- st.marks, emitted <- st.emitted, emitBy <- st.emitBy, delivered <- st.delivered, obsLogs <- st.obsLogs,
  subSeq <- st.subSeq, names <- st.names, pbar <- st.pbar

Ev == Traces[tr].ev
TasksOf(c) == 1..c.n
SetOf(s) == {s[i] : i \in DOMAIN s}
InT(t) == t \in TasksOf(st.cfg)

Init0(c) ==
  [cfg |-> c, phase |-> "running", exc |-> <<>>,
   subCount |-> [t \in TasksOf(c) |-> 0], viaCache |-> {}, slot |-> {}, inrun |-> {},
   nslot |-> [t \in TasksOf(c) |-> 0], nrun |-> [t \in TasksOf(c) |-> 0],
   runCount |-> [t \in TasksOf(c) |-> 0], loadCount |-> [t \in TasksOf(c) |-> 0],
   fin |-> [t \in TasksOf(c) |-> "none"], done |-> [t \in TasksOf(c) |-> "none"], died |-> {},
   held |-> {}, captured |-> {}, dig |-> [t \in TasksOf(c) |-> <<>>], reads |-> {},
   atrest |-> FALSE, intCount |-> 0, outKeys |-> <<>>, outVals |-> <<>>, lateStart |-> FALSE,
   idlePolls |-> 0, cachedNow |-> {}, cacheVals |-> [t \in TasksOf(c) |-> <<>>], obsCache |-> FALSE,
   envok |-> {}, marks |-> {}, emitted |-> <<>>, emitBy |-> <<>>, delivered |-> <<>>, obsLogs |-> FALSE,
   subSeq |-> <<>>, names |-> [t \in TasksOf(c) |-> ""],
   pbar |-> [y \in 0..Len(c.maxpar) |-> [made |-> FALSE, total |-> 0, n |-> 0, closed |-> FALSE]]]

Init == /\ tr \in 1..Len(Traces)
        /\ l = 0
        /\ st = Init0(Traces[tr].cfg)

(* what the backend promises about the process a task runs in (C16) *)
EnvFacts(e) ==
  LET b == st.cfg.backend IN
  (IF b = "serial" /\ (e.samepid = 0 \/ e.main = 0) THEN {<<e.t, "serial-not-in-caller-thread">>} ELSE {})
  \cup (IF b # "serial" /\ st.cfg.real /\ (e.samepid = 1 \/ e.childofcaller = 0)
        THEN {<<e.t, "not-own-child-process">>} ELSE {})
  \cup (IF b = "fork" /\ st.cfg.real /\ e.seesmark = 0 THEN {<<e.t, "fork-lost-parent-memory">>} ELSE {})
  \cup (IF b = "spawn" /\ st.cfg.real /\ (e.seesmark = 1 \/ e.freshimport = 0)
        THEN {<<e.t, "spawn-shares-parent-memory">>} ELSE {})
  \cup (IF e.ctx # st.cfg.ctxkeys[e.t] THEN {<<e.t, "context-not-filtered-as-declared">>} ELSE {})

Quiet(s) == [s EXCEPT !.atrest = FALSE]
Dec(n) == IF n > 0 THEN n - 1 ELSE 0

Apply(e) ==
  LET s == Quiet(st)  k == e.e IN
  CASE k = "submit" ->
         [s EXCEPT !.subCount = [@ EXCEPT ![e.t] = @ + 1],
                   !.viaCache = IF e.uc = 1 THEN @ \cup {e.t} ELSE @,
                   !.subSeq = Append(@, e.t)]
    [] k = "pstart" ->
         [s EXCEPT !.slot = @ \cup {e.t}, !.nslot = [@ EXCEPT ![e.t] = @ + 1],
                   !.lateStart = @ \/ st.phase # "running"]
    [] k = "rbegin" ->
         [s EXCEPT !.inrun = @ \cup {e.t}, !.nrun = [@ EXCEPT ![e.t] = @ + 1],
                   !.runCount = [@ EXCEPT ![e.t] = @ + 1],
                   !.lateStart = @ \/ st.phase # "running",
                   !.envok = @ \cup EnvFacts(e),
                   !.names = IF "pname" \in DOMAIN e /\ @[e.t] = "" THEN [@ EXCEPT ![e.t] = e.pname] ELSE @]
    [] k = "dread" ->
         [s EXCEPT !.reads = @ \cup {[t |-> e.t, d |-> e.d, ok |-> (e.ok = 1), v |-> e.v]}]
    [] k = "rend" ->
         [s EXCEPT !.inrun = @ \ {e.t}, !.nrun = [@ EXCEPT ![e.t] = Dec(@)],
                   !.dig = IF e.ok = 1 THEN [@ EXCEPT ![e.t] = e.v] ELSE @]
    [] k = "load" ->
         [s EXCEPT !.loadCount = [@ EXCEPT ![e.t] = @ + 1],
                   !.dig = IF e.ok = 1 THEN [@ EXCEPT ![e.t] = e.v] ELSE @,
                   !.names = IF "pname" \in DOMAIN e /\ @[e.t] = "" THEN [@ EXCEPT ![e.t] = e.pname] ELSE @]
    [] k = "w_die" ->
         [s EXCEPT !.died = @ \cup {e.t}, !.inrun = @ \ {e.t}, !.nrun = [@ EXCEPT ![e.t] = Dec(@)]]
    [] k = "w_term" ->
         [s EXCEPT !.inrun = @ \ {e.t}, !.nrun = [@ EXCEPT ![e.t] = Dec(@)]]
    [] k = "sample" ->
         [s EXCEPT !.atrest = TRUE]
    [] k = "rest" ->        \* the coordinator blocks on the empty result queue with a positive timeout
         [s EXCEPT !.atrest = TRUE]
    [] k = "consume" ->
         [s EXCEPT !.slot = @ \ {e.t}, !.nslot = [@ EXCEPT ![e.t] = Dec(@)],
                   !.fin = [@ EXCEPT ![e.t] = IF @ = "none" THEN (IF e.ok = 1 THEN "ok" ELSE "fail") ELSE @]]
    [] k = "died" ->      \* the code *declares* the worker dead; whether it really died is the environment's word (w_die)
         [s EXCEPT !.slot = @ \ {e.t}, !.nslot = [@ EXCEPT ![e.t] = Dec(@)],
                   !.fin = [@ EXCEPT ![e.t] = IF @ = "none" THEN "fail" ELSE @]]
    [] k = "exec_stop" ->
         [s EXCEPT !.slot = @ \ {e.t}, !.nslot = [@ EXCEPT ![e.t] = Dec(@)]]
    [] k = "complete" ->
         [s EXCEPT !.done = [@ EXCEPT ![e.t] = IF e.ok = 1 THEN "ok" ELSE "fail"],
                   !.held = SetOf(e.held)]
    [] k = "capture" ->
         [s EXCEPT !.captured = @ \cup {e.t}]
    [] k = "removed" ->
         [s EXCEPT !.held = SetOf(e.held)]
    [] k = "closed" ->
         [s EXCEPT !.held = SetOf(e.held)]
    [] k = "int" ->
         [s EXCEPT !.intCount = @ + 1,
                   !.slot = IF st.cfg.backend = "serial" THEN {} ELSE @,
                   !.nslot = IF st.cfg.backend = "serial" THEN [t \in DOMAIN @ |-> 0] ELSE @,
                   !.inrun = IF st.cfg.backend = "serial" THEN {} ELSE @,
                   !.nrun = IF st.cfg.backend = "serial" THEN [t \in DOMAIN @ |-> 0] ELSE @]
    [] k = "outcome" ->
         [s EXCEPT !.phase = IF e.kind = "return" THEN "returned" ELSE "raised",
                   !.exc = IF e.kind = "return" THEN <<>> ELSE <<e.exc, e.cause>>,
                   !.outKeys = e.keys,
                   !.outVals = e.vals,
                   !.idlePolls = IF e.kind = "hang" THEN 99 ELSE @]
    [] k = "obs_cache" ->
         [s EXCEPT !.obsCache = TRUE,
                   !.cachedNow = SetOf(e.cached),
                   !.cacheVals = [t \in TasksOf(st.cfg) |->
                                    IF \E i \in DOMAIN e.vals : e.vals[i][1] = t /\ e.vals[i][2] = 1
                                    THEN (CHOOSE x \in SetOf(e.vals) : x[1] = t)[3] ELSE <<>>]]
    [] k = "obs_marks" ->
         [s EXCEPT !.marks = {[t |-> e.insts[i][1], marked |-> (e.insts[i][2] = 1), anc |-> e.insts[i][3],
                                tok |-> IF Len(e.insts[i]) >= 4 THEN e.insts[i][4] ELSE ""] : i \in DOMAIN e.insts}]
    [] k = "obs_ctxstore" ->   \* keys + stored metadata of the same request run under two different contexts
         [s EXCEPT !.envok = @ \cup (IF e.a # e.b THEN {<<0, "context-influenced-cache-keys-or-stored-entries">>} ELSE {})
                                  \cup (IF "leak" \in DOMAIN e /\ e.leak = 1 THEN {<<0, "context-content-found-in-a-stored-entry">>} ELSE {})]
    [] k = "lemit" ->     \* C19 speaks of logger records on every backend, of stdout / stderr lines under a process backend
         [s EXCEPT !.emitted = IF st.cfg.backend = "serial" /\ e.k \in {"P", "E", "Q", "U", "S", "V"} THEN @ ELSE Append(@, e.m),
                   !.emitBy = IF st.cfg.backend = "serial" /\ e.k \in {"P", "E", "Q", "U", "S", "V"} THEN @ ELSE Append(@, e.t)]
    [] k = "obs_logs" ->
         [s EXCEPT !.obsLogs = TRUE, !.delivered = e.delivered]
    [] k = "pb_new" ->      \* a second bar for the same type shows as a wrong total
         [s EXCEPT !.pbar = [@ EXCEPT ![e.y] = [made |-> TRUE, total |-> IF @.made THEN 0 - 1 ELSE e.total, n |-> @.n, closed |-> FALSE]]]
    [] k = "pb_upd" ->
         [s EXCEPT !.pbar = [@ EXCEPT ![e.y] = [@ EXCEPT !.n = @ + e.k]]]
    [] k = "pb_close" ->
         [s EXCEPT !.pbar = [@ EXCEPT ![e.y] = [@ EXCEPT !.closed = TRUE]]]
    [] OTHER -> s

Next == /\ l < Len(Ev)
        /\ l' = l + 1
        /\ tr' = tr
        /\ st' = Apply(Ev[l + 1])

Spec == Init /\ [][Next]_tvars

-----------------------------------------------------------------------------
(* verdict collection *)

(* Only the formulas of the properties named in the environment variable LV_PROPS   *)
(* (e.g. "C10" or "C01,C02"; "ALL" = every formula) are evaluated: a check reports  *)
(* only its own property, and evaluation is lazy per selected name.                 *)
Wanted(c) == IOEnv.LV_PROPS = "ALL" \/ \E i \in 1..(Len(IOEnv.LV_PROPS) - 2) : SubSeq(IOEnv.LV_PROPS, i, i + 2) = SubSeq(c, 1, 3)

StateNames == {"C01_Returns", "C01_Keys", "C01_Values", "C01_Digest", "C02_RealResult", "C03_OnlyNeeded", "C03_AtMostOnce",
               "C03_LoadIffCached", "C03_Marked", "C03_MarkedOwn", "C04_Workers", "C04_Type", "C05_AtRest", "C10_OnlyOwnFailures",
               "C10_Continue", "C10_NoValueForFailed", "C10_CachedOk", "C10_FailFast", "C10_NoStartAfterExit",
               "C11_NoIdleWait", "C11_NoSpin", "C14_ExitClass", "C14_RunningFinish", "C14_RunningCached",
               "C14_CacheConsistent", "C16_Env", "C17_Retained", "C17_Prompt", "C17_Captured",
               "C17_EmptyAtReturn", "C19_ExactlyOnce", "C19_DeliveredBeforeRaise", "C19_NeverTwice", "G01_Names", "G02_Bars", "G02_Count", "G02_Closed"}
StateHolds(c) ==
  CASE c = "C01_Returns" -> Abs!C01_Returns [] c = "C01_Keys" -> Abs!C01_Keys [] c = "C01_Values" -> Abs!C01_Values [] c = "C01_Digest" -> Abs!C01_Digest
    [] c = "C02_RealResult" -> Abs!C02_RealResult
    [] c = "C03_OnlyNeeded" -> Abs!C03_OnlyNeeded [] c = "C03_AtMostOnce" -> Abs!C03_AtMostOnce
    [] c = "C03_LoadIffCached" -> Abs!C03_LoadIffCached [] c = "C03_Marked" -> Abs!C03_Marked [] c = "C03_MarkedOwn" -> Abs!C03_MarkedOwn
    [] c = "C04_Workers" -> Abs!C04_Workers [] c = "C04_Type" -> Abs!C04_Type
    [] c = "C05_AtRest" -> Abs!C05_AtRest
    [] c = "C10_OnlyOwnFailures" -> Abs!C10_OnlyOwnFailures [] c = "C10_Continue" -> Abs!C10_Continue
    [] c = "C10_NoValueForFailed" -> Abs!C10_NoValueForFailed [] c = "C10_CachedOk" -> Abs!C10_CachedOk
    [] c = "C10_FailFast" -> Abs!C10_FailFast [] c = "C10_NoStartAfterExit" -> Abs!C10_NoStartAfterExit
    [] c = "C11_NoIdleWait" -> Abs!C11_NoIdleWait [] c = "C11_NoSpin" -> Abs!C11_NoSpin
    [] c = "C14_ExitClass" -> Abs!C14_ExitClass [] c = "C14_RunningFinish" -> Abs!C14_RunningFinish
    [] c = "C14_RunningCached" -> Abs!C14_RunningCached [] c = "C14_CacheConsistent" -> Abs!C14_CacheConsistent
    [] c = "C16_Env" -> Abs!C16_Env
    [] c = "C17_Retained" -> Abs!C17_Retained [] c = "C17_Prompt" -> Abs!C17_Prompt
    [] c = "C17_Captured" -> Abs!C17_Captured [] c = "C17_EmptyAtReturn" -> Abs!C17_EmptyAtReturn
    [] c = "C19_ExactlyOnce" -> Abs!C19_ExactlyOnce
    [] c = "C19_DeliveredBeforeRaise" -> Abs!C19_DeliveredBeforeRaise [] c = "C19_NeverTwice" -> Abs!C19_NeverTwice
    [] c = "G01_Names" -> Abs!G01_Names
    [] c = "G02_Bars" -> Abs!G02_Bars [] c = "G02_Count" -> Abs!G02_Count [] c = "G02_Closed" -> Abs!G02_Closed

StepNames == {"C02_SubmitAfterDeps", "C02_RunAfterDeps", "C02_StartAfterSubmit", "C03_OutcomeStable",
              "C14_NoStartAfterInterrupt", "C17_OnlyNew"}
StepHolds(c) ==
  CASE c = "C02_SubmitAfterDeps" -> Abs!C02_SubmitAfterDeps_Step
    [] c = "C02_RunAfterDeps" -> Abs!C02_RunAfterDeps_Step
    [] c = "C02_StartAfterSubmit" -> Abs!C02_StartAfterSubmit_Step
    [] c = "C03_OutcomeStable" -> Abs!C03_OutcomeStable_Step
    [] c = "C14_NoStartAfterInterrupt" -> Abs!C14_NoStartAfterInterrupt_Step
    [] c = "C17_OnlyNew" -> Abs!C17_OnlyNew_Step

WantedState == {c \in StateNames : Wanted(c)}
WantedStep == {c \in StepNames : Wanted(c)}

ASSUME \A i \in 1..Len(Traces) : TLCSet(i, [fails |-> {}, reached |-> 0])

Note(fset, pos) ==
  LET cur == TLCGet(tr)
      new == {c \in fset : \A p \in cur.fails : p[1] # c} IN
  TLCSet(tr, [fails |-> cur.fails \cup {<<c, pos>> : c \in new},
              reached |-> IF cur.reached < pos THEN pos ELSE cur.reached])

CheckState == Note({c \in WantedState : ~StateHolds(c)}, l)

CheckStep == Note({c \in WantedStep : ~StepHolds(c)}, l')

Verdicts ==
  \A i \in 1..Len(Traces) :
     PrintT("@@" \o ToJson([tid |-> Traces[i].tid, n |-> Len(Traces[i].ev), reached |-> TLCGet(i).reached,
                            fails |-> SetToSeq(TLCGet(i).fails)]))
=============================================================================
