CONSTANTS
  MaxLen = 4
SPECIFICATION Spec
INVARIANT TypeOK
INVARIANT EmitHistory
PROPERTY FinishedIsFinal
PROPERTY CancelledIsFinal
