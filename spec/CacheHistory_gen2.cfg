CONSTANTS
  MaxLen = 2
  Faults = FALSE
  Emit = FALSE
SPECIFICATION Spec
INVARIANT OnlyCacheableStored
INVARIANT StoredValuesWellFormed
INVARIANT PrintHistory
PROPERTY OnlyOwnEntryChanges
