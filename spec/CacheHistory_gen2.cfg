CONSTANTS
  MaxLen = 2
  Emit = FALSE
SPECIFICATION Spec
INVARIANT OnlyCacheableStored
INVARIANT StoredValuesWellFormed
INVARIANT PrintHistory
PROPERTY OnlyOwnEntryChanges
