CONSTANTS
  Proto = "meta-last"
  Overwrite = FALSE
  Enumerate = FALSE
SPECIFICATION Spec
INVARIANT NoPoison
INVARIANT DoneIsLoadable
INVARIANT RaisedLeavesNothingNew
