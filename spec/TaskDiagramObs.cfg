SPECIFICATION DummySpec
INVARIANT DummyInv
POSTCONDITION Verdicts
