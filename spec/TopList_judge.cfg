CONSTANTS
  MaxInfos = 0
  MaxTop = 1
SPECIFICATION CaseSpec
POSTCONDITION JudgePost
