CONSTANTS
  Logs = TRUE
  RecordHist = FALSE
  MaxInt = 0
  Grow = FALSE
  AllowDie = TRUE
SPECIFICATION Spec
INVARIANT A_C01_Keys
INVARIANT A_C01_Values
INVARIANT A_C01_Digest
INVARIANT A_C02_RealResult
INVARIANT A_C03_OnlyNeeded
INVARIANT A_C03_AtMostOnce
INVARIANT A_C03_LoadIffCached
INVARIANT A_C04_Workers
INVARIANT A_C04_Type
INVARIANT A_C05_AtRest
INVARIANT A_C10_OnlyOwnFailures
INVARIANT A_C10_Continue
INVARIANT A_C10_NoValueForFailed
INVARIANT A_C10_CachedOk
INVARIANT A_C10_FailFast
INVARIANT A_C11_NoIdleWait
INVARIANT A_C17_Retained
INVARIANT A_C17_Prompt
INVARIANT A_C17_Captured
INVARIANT A_C17_EmptyAtReturn
INVARIANT I_Pdeps
INVARIANT I_Pdependents
INVARIANT I_Future
INVARIANT I_RunningCap
PROPERTY A_C02_SubmitAfterDeps
PROPERTY A_C02_RunAfterDeps
PROPERTY A_C02_StartAfterSubmit
PROPERTY A_C03_OutcomeStable
PROPERTY A_C17_OnlyNew
INVARIANT A_C19_ExactlyOnce
INVARIANT A_C01_Returns
