---------------------------- MODULE LabRunTrace ----------------------------
(***************************************************************************)
(* IMPLEMENTATION-LEVEL TRACE VALIDATION.                                  *)
(*                                                                         *)
(* Is every execution recorded from the real code a behaviour of LabRun?   *)
(* Each action of LabRun is paired with the block of hook events the       *)
(* corresponding critical section of the code emits (possibly none): a     *)
(* step of the trace specification is one LabRun action whose event block  *)
(* equals the next events of the recorded execution.  The coordinator is   *)
(* deterministic, so event-less steps do not branch; the environment's     *)
(* steps (a worker finishes / exits / dies, an interrupt is delivered) are  *)
(* themselves events of the recording (written by the rig that performs    *)
(* them).                                                                  *)
(*                                                                         *)
(* LV_CFGS   : JSON list of configurations, one per recorded execution     *)
(* LV_ITRACES: ndjson, line k = [tid, ev] for configuration k; events are  *)
(*             projected (renamed / filtered, runs of died events and the  *)
(*             members of set-valued fields sorted) by lv/conform.py       *)
(*                                                                         *)
(* The result is a DRIFT measure of the model, not a property verdict: a   *)
(* behaviour-preserving change of the code may legitimately leave LabRun.  *)
(* Run with -workers 1 (TLC registers); CHECK_DEADLOCK FALSE.              *)
(***************************************************************************)
EXTENDS LabRun

ITraces == ndJsonDeserialize(IOEnv.LV_ITRACES)

VARIABLE l          \* number of events of trace ci consumed so far
tvars == <<vars, l>>

Ev == ITraces[ci].ev
B(b) == IF b THEN 1 ELSE 0
Sorted(S) == SetToSortSeq(S, <)

Out(seq) == /\ l + Len(seq) <= Len(Ev)
            /\ \A i \in 1..Len(seq) : Ev[l + i] = seq[i]
            /\ l' = l + Len(seq)

DdepsSeq(dd) == LET ts == Sorted({t \in Tasks : dd[t] # {}}) IN [i \in 1..Len(ts) |-> <<ts[i], Sorted(dd[ts[i]])>>]
PStarts(ep, run) == [i \in 1..StartK(ep, run) |-> [e |-> "pstart", t |-> ep[i]]]

T_Plan == Plan /\ Out(<<[e |-> "plan", pending |-> pend', ddeps |-> DdepsSeq(ddeps')]>>)
T_LoopTop == LoopTop /\ Out(IF pc' = "submit" THEN <<[e |-> "ready", tasks |-> ready']>> ELSE <<>>)
T_Submit == Submit /\ Out(IF ready = <<>> THEN <<>>
                          ELSE <<[e |-> "submit", t |-> Head(ready), uc |-> B(uc'[Head(ready)])]>>
                               \o (IF Serial THEN <<>> ELSE PStarts(Append(epend, Head(ready)), running)))
T_WaitSample == WaitSample /\ Out(<<[e |-> "sample", dead |-> Sorted(deadS')]>>)
T_WaitConsume ==
  WaitConsume /\ Out(LET got == SelectSeq(rq, LAMBDA t : t \in running) IN
                     [i \in 1..Len(got) |-> [e |-> "consume", t |-> got[i], ok |-> B(wres[got[i]] = "ok")]])
T_WaitDead ==
  WaitDead /\ Out(LET deadNow == Sorted({t \in deadS : fut[t] = "pending"})
                      run1 == running \ {t \in deadS : fut[t] = "pending"} IN
                  [i \in 1..Len(deadNow) |-> [e |-> "died", t |-> deadNow[i]]] \o PStarts(epend, run1))
T_WaitDrain2 == WaitDrain2 /\ Out(<<>>)
T_Iter == Iter /\ Out(IF batch = <<>> THEN <<>>
                      ELSE <<[e |-> "yield", t |-> Head(batch), cancelled |-> B(fut[Head(batch)] = "cancelled")]>>)
T_SerPop == SerPop /\ Out(IF subq = <<>> THEN <<>>
                          ELSE <<[e |-> "pstart", t |-> Head(subq)], [e |-> "sample", dead |-> <<>>]>>)
T_SerRun == SerRun /\ Out(<<[e |-> "consume", t |-> cur, ok |-> B(RunOk(cur))]>>)
T_Body == Body /\ Out(<<[e |-> "complete", t |-> cur, ok |-> B(fut[cur] = "ok"), held |-> Sorted(rmap)]>>)
T_Remove == RemoveResults /\ Out(<<[e |-> "removed", held |-> Sorted(rmap')]>>)
(* An interrupt while the plan is being made (before the try block) leaves run_tasks at once: the plan hook has *)
(* already reported, nothing is closed.                                                                         *)
T_Interrupt == Interrupt /\ IF pc = "plan"
                            THEN /\ l + 3 <= Len(Ev) /\ Ev[l + 1].e = "plan" /\ Ev[l + 2] = [e |-> "int"]
                                 /\ Ev[l + 3] = [e |-> "outcome", kind |-> "raise", exc |-> "KeyboardInterrupt"]
                                 /\ l' = l + 3
                            ELSE Out(<<[e |-> "int"]>>)
T_Cancel == Cancel /\ Out(<<[e |-> "cancelled"]>>)
T_DrainCheck == DrainCheck /\ Out(<<>>)
T_Stop == Stop /\ Out(<<[e |-> "stopped"]>>)
T_Close == Close /\ Out(<<[e |-> "closed", held |-> Sorted(rmap)],
                         [e |-> "outcome", kind |-> IF exitk = "return" THEN "return" ELSE "raise", exc |-> IF exitk = "return" THEN "" ELSE exitk]>>)
T_Worker == \E t \in Tasks : \/ WFinish(t) /\ Out(<<[e |-> "w_fin", t |-> t]>>)
                             \/ WExit(t) /\ Out(<<[e |-> "w_exit", t |-> t]>>)
                             \/ WDie(t) /\ Out(<<[e |-> "w_die", t |-> t]>>)

TraceInit == Init /\ l = 0
TraceNext == \/ T_Plan \/ T_LoopTop \/ T_Submit \/ T_WaitSample \/ T_WaitConsume \/ T_WaitDead \/ T_WaitDrain2 \/ T_Iter
             \/ T_SerPop \/ T_SerRun \/ T_Body \/ T_Remove \/ T_Interrupt \/ T_Cancel \/ T_DrainCheck \/ T_Stop
             \/ T_Close \/ T_Worker
TraceSpec == TraceInit /\ [][TraceNext]_tvars

-----------------------------------------------------------------------------
(* acceptance: per trace, the largest number of events explained, and whether a terminated model state was reached *)
ASSUME \A i \in 1..Len(ITraces) : TLCSet(i, [reached |-> 0, ended |-> FALSE, pcs |-> {}])

Note ==
  LET c == TLCGet(ci) IN
  TLCSet(ci, [reached |-> IF l > c.reached THEN l ELSE c.reached,
              ended |-> c.ended \/ (l = Len(Ev) /\ Terminated),
              pcs |-> IF l > c.reached THEN {pc} ELSE IF l = c.reached THEN c.pcs \cup {pc} ELSE c.pcs])

Verdicts ==
  \A i \in 1..Len(ITraces) :
     PrintT("@@" \o ToJson([tid |-> ITraces[i].tid, n |-> Len(ITraces[i].ev), reached |-> TLCGet(i).reached,
                            ended |-> TLCGet(i).ended, pcs |-> SetToSeq(TLCGet(i).pcs)]))
VerdictsPost == TLCGet("distinct") >= 0 /\ Verdicts
=============================================================================
