CONSTANTS
  N = 4
  Loops = FALSE
SPECIFICATION GSpec
INVARIANT I_Verdict
INVARIANT I_VisitedAll
INVARIANT Emit
