CONSTANTS
  MaxLen = 4
  Emit = TRUE
SPECIFICATION Spec
INVARIANT OnlyCacheableStored
INVARIANT StoredValuesWellFormed
INVARIANT PrintHistory
PROPERTY OnlyOwnEntryChanges
