SPECIFICATION CaseSpec
INVARIANT I_RoundTrip
INVARIANT I_NormIdempotent
INVARIANT I_DepsAreTasks
INVARIANT I_RejectHasPath
