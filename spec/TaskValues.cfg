SPECIFICATION DummySpec
INVARIANT DummyInv
