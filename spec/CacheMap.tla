------------------------------ MODULE CacheMap ------------------------------
(***************************************************************************)
(* The reference semantics of the Lab's cache as a plain map: pure         *)
(* operators (no variables) shared by the generator of histories           *)
(* (CacheHistory) and the judge of replayed histories (CacheHistoryTrace). *)
(* c = universe (n, deps, typ, tcache, storage), st = the map: st[t] is    *)
(* <<>> or [val, meta].                                                    *)
(***************************************************************************)
EXTENDS Naturals, Sequences, FiniteSets, TLC

SetOf(s) == {s[i] : i \in DOMAIN s}
TasksOf(c) == 1..c.n
DepsOf(c, t) == SetOf(c.deps[t])
CacheableIn(c, t) == c.storage /\ c.tcache[c.typ[t]]

(* ---- the reference semantics of one run_tasks call, as pure operators over (c, st, req, bust, e) ---- *)
Has(st, t) == st[t] # <<>>
UsesCache(st, t, bust) == Has(st, t) /\ ~bust
NeededOf(c, st, t, bust) == IF UsesCache(st, t, bust) THEN {} ELSE DepsOf(c, t)

RECURSIVE ClosureFrom(_, _, _, _, _)
ClosureFrom(c, st, bust, S, k) ==
  IF k = 0 THEN S
  ELSE ClosureFrom(c, st, bust, IF k \in S THEN S \cup NeededOf(c, st, k, bust) ELSE S, k - 1)
Closure(c, st, req, bust) == ClosureFrom(c, st, bust, SetOf(req), c.n)

Executed(c, st, req, bust) == {t \in Closure(c, st, req, bust) : ~UsesCache(st, t, bust)}
Loaded(c, st, req, bust) == {t \in Closure(c, st, req, bust) : UsesCache(st, t, bust)}

RECURSIVE ValOf(_, _, _, _, _)
ValOf(c, st, bust, e, t) ==
  IF UsesCache(st, t, bust) THEN st[t].val
  ELSE <<t, e, [i \in 1..Len(c.deps[t]) |-> ValOf(c, st, bust, e, c.deps[t][i])]>>

RECURSIVE DedupFrom(_, _)
DedupFrom(s, acc) == IF s = <<>> THEN acc
                     ELSE DedupFrom(Tail(s), IF Head(s) \in SetOf(acc) THEN acc ELSE Append(acc, Head(s)))
Dedup(s) == DedupFrom(s, <<>>)

(* F = the tasks whose run() raises in this call.  A task fails iff it is executed and it raises or reads a failed   *)
(* dependency (loads never fail).  Dependencies have lower ids, so the recursion is well-founded.                    *)
RECURSIVE FailsIn(_, _, _, _, _, _)
FailsIn(c, st, req, bust, F, t) ==
  /\ t \in Executed(c, st, req, bust)
  /\ (t \in F \/ \E d \in DepsOf(c, t) : FailsIn(c, st, req, bust, F, d))
OkExecuted(c, st, req, bust, F) == {t \in Executed(c, st, req, bust) : ~FailsIn(c, st, req, bust, F, t)}
RetKeys(c, st, req, bust, F) == SelectSeq(Dedup(req), LAMBDA t : ~FailsIn(c, st, req, bust, F, t))

(* store after the call; meta(t) gives the result_meta token of t's execution in this call; a failed execution *)
(* changes nothing                                                                                            *)
StoreAfterRunF(c, st, req, bust, e, meta(_), F) ==
  [t \in TasksOf(c) |->
     IF t \in OkExecuted(c, st, req, bust, F) /\ CacheableIn(c, t)
     THEN [val |-> ValOf(c, st, bust, e, t), meta |-> meta(t)]
     ELSE st[t]]
StoreAfterRun(c, st, req, bust, e, meta(_)) == StoreAfterRunF(c, st, req, bust, e, meta, {})
StoreAfterUncache(c, st, S) == [t \in TasksOf(c) |-> IF t \in S THEN <<>> ELSE st[t]]

=============================================================================
