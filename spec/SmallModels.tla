----------------------------- MODULE SmallModels -----------------------------
(***************************************************************************)
(* Two small sequential components as explicit models (growth beyond the   *)
(* listed properties; C19 and the planner rely on them):                   *)
(*   LoggerFileProxy (labtech/utils.py): write(buf) keeps every fragment   *)
(*     that is not whitespace-only; flush() hands all kept fragments, each *)
(*     prefixed, as ONE record to the logger and forgets them.             *)
(*   OrderedSet (labtech/utils.py): add / remove / contains / iteration in *)
(*     first-insertion order / length / concatenation.                     *)
(*   ProcessMonitor (labtech/runners/process.py): the active-task set kept *)
(*     from the queue of start / end events.                               *)
(* Spec enumerates every call sequence up to MaxLen; Judge compares what   *)
(* the real classes returned (lv/rigs/small.py) with the model.            *)
(***************************************************************************)
EXTENDS Naturals, Sequences, FiniteSets, TLC, Json, IOUtils

CONSTANTS MaxLen, Which        \* Which \in {"proxy", "oset", "monitor"}

(* ---------------- LoggerFileProxy ---------------- *)
Frags == {"a", "b", " ", ""}                 \* " " and "" are whitespace-only
ProxyOps == {<<"write", f>> : f \in Frags} \cup {<<"flush", "">>}
Blank(f) == f \in {" ", ""}
\* state: <<kept fragments, delivered records (each a sequence of fragments)>>
ProxyStep(s, op) ==
  IF op[1] = "write" THEN <<IF Blank(op[2]) THEN s[1] ELSE Append(s[1], op[2]), s[2]>>
  ELSE IF s[1] = <<>> THEN s ELSE <<<<>>, Append(s[2], s[1])>>

(* ---------------- OrderedSet ---------------- *)
Elems == {"x", "y", "z"}
OsetOps == {<<"add", e>> : e \in Elems} \cup {<<"remove", e>> : e \in Elems} \cup {<<"contains", e>> : e \in Elems}
           \cup {<<"items", "">>, <<"len", "">>}
InSeq(s, e) == \E i \in DOMAIN s : s[i] = e
Without(s, e) == SelectSeq(s, LAMBDA x : x # e)
\* state: the items in order; reply of each call
OsetStep(s, op) == IF op[1] = "add" THEN (IF InSeq(s, op[2]) THEN s ELSE Append(s, op[2]))
                   ELSE IF op[1] = "remove" /\ InSeq(s, op[2]) THEN Without(s, op[2]) ELSE s
OsetReply(s, op) == CASE op[1] = "add" -> "none"
                      [] op[1] = "remove" -> IF InSeq(s, op[2]) THEN "none" ELSE "raise:KeyError"
                      [] op[1] = "contains" -> IF InSeq(s, op[2]) THEN "True" ELSE "False"
                      [] op[1] = "items" -> ToString(s)
                      [] op[1] = "len" -> ToString(Len(s))

(* ---------------- ProcessMonitor (labtech/runners/process.py) ---------------- *)
(* workers put ProcessStartEvent / ProcessEndEvent on a queue; a poll consumes the queue in order and keeps the  *)
(* set of active task names: a name is active iff its last consumed event is a start.  state: <<queue, active>> *)
Names == {"p", "q"}
MonOps == {<<"start", n>> : n \in Names} \cup {<<"end", n>> : n \in Names} \cup {<<"poll", "">>}
RECURSIVE Consume(_, _)
Consume(q, act) == IF q = <<>> THEN act
                   ELSE LET e == Head(q) IN
                        Consume(Tail(q), IF e[1] = "start" THEN (IF InSeq(act, e[2]) THEN act ELSE Append(act, e[2]))
                                         ELSE Without(act, e[2]))
MonStep(s, op) == IF op[1] = "poll" THEN <<<<>>, Consume(s[1], s[2])>> ELSE <<Append(s[1], op), s[2]>>
MonReply(s, op) == IF op[1] = "poll" THEN ToString(Consume(s[1], s[2])) ELSE "none"

VARIABLES st, hist
svars == <<st, hist>>
TheOps == IF Which = "proxy" THEN ProxyOps ELSE IF Which = "oset" THEN OsetOps ELSE MonOps
Step(s, op) == IF Which = "proxy" THEN ProxyStep(s, op) ELSE IF Which = "oset" THEN OsetStep(s, op) ELSE MonStep(s, op)
Init == st = (IF Which = "proxy" THEN <<<<>>, <<>>>> ELSE IF Which = "oset" THEN <<>> ELSE <<<<>>, <<>>>>) /\ hist = <<>>
Next == \E op \in TheOps : Len(hist) < MaxLen /\ hist' = Append(hist, op) /\ st' = Step(st, op)
Spec == Init /\ [][Next]_svars

NoDupItems == Which = "oset" => \A i, j \in DOMAIN st : i # j => st[i] # st[j]
DeliveredNeverBlank == Which = "proxy" => \A i \in DOMAIN st[2] : st[2][i] # <<>> /\ \A j \in DOMAIN st[2][i] : ~Blank(st[2][i][j])
NothingDeliveredTwice == [][Which = "proxy" => (Len(st'[2]) > Len(st[2]) => st'[1] = <<>>)]_svars
EmitHistory == (Len(hist) = MaxLen) => PrintT("@@" \o ToJson(hist))

(* ---- judging what the real classes did ---- *)
Obs == IF "LV_OBS" \in DOMAIN IOEnv THEN ndJsonDeserialize(IOEnv.LV_OBS) ELSE <<>>
RECURSIVE Run(_, _)
Run(s, ops) == IF ops = <<>> THEN s ELSE Run(Step(s, Head(ops)), Tail(ops))
RECURSIVE Replies(_, _)
Replies(s, ops) == IF ops = <<>> THEN <<>> ELSE <<OsetReply(s, Head(ops))>> \o Replies(OsetStep(s, Head(ops)), Tail(ops))
RECURSIVE MonReplies(_, _)
MonReplies(s, ops) == IF ops = <<>> THEN <<>> ELSE <<MonReply(s, Head(ops))>> \o MonReplies(MonStep(s, Head(ops)), Tail(ops))
ActiveNeverEnded == Which = "monitor" => \A i \in DOMAIN st[2] : \A j \in DOMAIN st[2] : i # j => st[2][i] # st[2][j]
Agrees(o) == IF Which = "proxy" THEN o.delivered = Run(<<<<>>, <<>>>>, o.ops)[2]
             ELSE IF Which = "oset" THEN o.replies = Replies(<<>>, o.ops)
             ELSE o.replies = MonReplies(<<<<>>, <<>>>>, o.ops)
Judge(x) == \A k \in 1..Len(Obs) : x >= 0 /\ PrintT("@@" \o ToJson([id |-> Obs[k].id, ok |-> Agrees(Obs[k])]))
JudgePost == Judge(TLCGet("distinct"))
=============================================================================
