CONSTANTS
  Proto = "meta-first"
  Overwrite = TRUE
  Enumerate = TRUE
SPECIFICATION Spec
INVARIANT NoPoison
