SPECIFICATION DummySpec
INVARIANT DummyInv
POSTCONDITION EmitInputsPost
