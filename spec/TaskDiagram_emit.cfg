SPECIFICATION DSpec
INVARIANT I_TerminalMatches
INVARIANT I_NeverTooMuch
PROPERTY Terminates
POSTCONDITION EmitInputsPost
