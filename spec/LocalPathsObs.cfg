CONSTANTS
  KeyLen = 0
  FileLen = 0
SPECIFICATION DummySpec
INVARIANT DummyInv
POSTCONDITION Verdicts
