CONSTANTS
  MaxLen = 0
  Which = "proxy"
SPECIFICATION Spec
POSTCONDITION JudgePost
