CONSTANTS
  Logs = FALSE
  RecordHist = TRUE
  MaxInt = 2
  AllowDie = TRUE
SPECIFICATION Spec
INVARIANT PrintSchedule
