CONSTANTS
  Logs = FALSE
  RecordHist = TRUE
  MaxInt = 2
  Grow = FALSE
  AllowDie = TRUE
SPECIFICATION Spec
INVARIANT PrintSchedule
