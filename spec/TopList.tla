------------------------------ MODULE TopList ------------------------------
(***************************************************************************)
(* TaskMonitor (labtech/monitor.py): the list of "top" active tasks shown  *)
(* while tasks run -- a pure function of the runner's task infos, the sort *)
(* key, top_n and the line template (growth beyond the listed properties;  *)
(* DESIGN section 10 had excluded the monitor's display altogether).       *)
(*                                                                         *)
(* IMPLEMENTATION LEVEL, as the code does it:                              *)
(*   - a STABLE sort by the value of the sort key; a key "-k" sorts by k   *)
(*     and then reverses the whole list, so ties come out in REVERSE       *)
(*     arrival order (TiesReversed);                                       *)
(*   - the first top_n infos are shown;                                    *)
(*   - each column is padded to the longest formatted text AMONG THE SHOWN *)
(*     infos; columns holding strings are left-aligned, others right-      *)
(*     aligned (a <<value, formatted>> pair sorts by value, shows          *)
(*     formatted);                                                         *)
(*   - the header counts the SHOWN lines, not the active tasks             *)
(*     (HeaderCountsShown), and the display is filled with blank lines.    *)
(* PROPERTY LEVEL: Shown is a sorted selection (I_Sorted), of the right    *)
(* size (I_Size), holding the extreme elements (I_TopOnes), and the        *)
(* columns line up (I_Aligned).                                            *)
(***************************************************************************)
EXTENDS Naturals, Sequences, FiniteSets, TLC, Json, IOUtils, SequencesExt

(* the pool of task infos: name (a string column; nrank = its rank in string order), pid, cpu = <<value, formatted>> *)
Pool == { [name |-> "a",   nrank |-> 1, pid |-> 7,  cpu |-> <<50, "50.0%">>],
          [name |-> "bb",  nrank |-> 2, pid |-> 12, cpu |-> <<5, "5.0%">>],
          [name |-> "a",   nrank |-> 1, pid |-> 12, cpu |-> <<100, "100.0%">>],
          [name |-> "ccc", nrank |-> 3, pid |-> 3,  cpu |-> <<5, "5.0%">>] }
Keys == {"name", "pid", "cpu"}
SortSpecs == [key : Keys, rev : BOOLEAN]            \* top_sort = key, or "-" \o key
CONSTANTS MaxInfos, MaxTop
Cases == {[infos |-> s, sort |-> k, n |-> n] : s \in UNION {[1..m -> Pool] : m \in 0..MaxInfos}, k \in SortSpecs, n \in 1..MaxTop}

KeyOf(sp) == sp.key
Rev(sp) == sp.rev
Val(info, k) == IF k = "name" THEN info.nrank ELSE IF k = "pid" THEN info.pid ELSE info.cpu[1]
Fmt(info, k) == IF k = "name" THEN info.name ELSE IF k = "pid" THEN ToString(info.pid) ELSE info.cpu[2]

(* stable sort: the permutation ordered by <<value, arrival index>> *)
Before(s, k, i, j) == Val(s[i], k) < Val(s[j], k) \/ (Val(s[i], k) = Val(s[j], k) /\ i < j)
StableIdx(s, k) == SortSeq([i \in DOMAIN s |-> i], LAMBDA i, j : Before(s, k, i, j))
Ordered(c) == LET idx == StableIdx(c.infos, KeyOf(c.sort))
                  srt == [i \in DOMAIN idx |-> c.infos[idx[i]]] IN
              IF Rev(c.sort) THEN Reverse(srt) ELSE srt
Shown(c) == LET o == Ordered(c) IN SubSeq(o, 1, IF Len(o) < c.n THEN Len(o) ELSE c.n)

MaxOf(S) == CHOOSE x \in S : \A y \in S : y <= x
Width(sh, k) == MaxOf({Len(Fmt(sh[i], k)) : i \in DOMAIN sh})
Cell(sh, i, k) == LET w == Width(sh, k) t == Fmt(sh[i], k) IN
                  [text |-> t, width |-> w, align |-> IF Len(t) = w THEN "N" ELSE IF k = "name" THEN "L" ELSE "R"]
Lines(c) == LET sh == Shown(c) IN [i \in DOMAIN sh |-> <<Cell(sh, i, "name"), Cell(sh, i, "pid"), Cell(sh, i, "cpu")>>]
Expected(c) == [lines |-> Lines(c), header_count |-> Len(Shown(c)), blanks |-> c.n - Len(Shown(c))]

VARIABLE case
CaseSpec == case \in Cases /\ [][UNCHANGED case]_case
I_Size == Len(Shown(case)) = (IF Len(case.infos) < case.n THEN Len(case.infos) ELSE case.n)
I_Sorted == LET sh == Shown(case) k == KeyOf(case.sort) IN
            \A i, j \in DOMAIN sh : i < j => IF Rev(case.sort) THEN Val(sh[i], k) >= Val(sh[j], k) ELSE Val(sh[i], k) <= Val(sh[j], k)
I_TopOnes == LET sh == Shown(case) k == KeyOf(case.sort)              \* nothing left out beats something shown
                 shownVals == {Val(sh[i], k) : i \in DOMAIN sh} IN
             (Len(case.infos) > Len(sh)) =>
                \E lim \in shownVals : \A v \in shownVals : IF Rev(case.sort) THEN v >= lim ELSE v <= lim
I_Aligned == LET ls == Lines(case) IN \A i, j \in DOMAIN ls : \A col \in 1..3 : ls[i][col].width = ls[j][col].width
Emit == PrintT("@@" \o ToJson(case))

(* ---- judging what the real monitor displayed ---- *)
Obs == IF "LV_OBS" \in DOMAIN IOEnv THEN ndJsonDeserialize(IOEnv.LV_OBS) ELSE <<>>
Agrees(o) == o.got = Expected(o.case)
Judge(x) == \A k \in 1..Len(Obs) : x >= 0 /\ PrintT("@@" \o ToJson([id |-> Obs[k].id, ok |-> Agrees(Obs[k])]))
JudgePost == Judge(TLCGet("distinct"))
=============================================================================
