---------------------------- MODULE SaveProtocol ----------------------------
(***************************************************************************)
(* One cache entry on disk while BaseCache.save runs, under single faults  *)
(* (an operation raises: C12) and crashes (the process is killed: C13).    *)
(*                                                                         *)
(* IMPLEMENTATION LEVEL: the storage operations of the save path in the    *)
(* code's order, for two protocols                                         *)
(*   "meta-first"  the pinned tree: metadata.json, then the result file;   *)
(*                 is_cached = the key directory exists; no clean-up       *)
(*   "meta-last"   the repaired code: invalidate metadata, write the       *)
(*                 result, write metadata last; is_cached = directory      *)
(*                 exists and metadata is complete; remove the entry when  *)
(*                 anything raises                                         *)
(* File contents are abstract: "absent" | "empty" | "partial" | "old" |    *)
(* "new" ("old" = complete content of the entry that existed before an     *)
(* overwrite, "new" = complete content this save writes).  A write leaves  *)
(* "empty" (everything still buffered) or "partial" (some of it flushed)   *)
(* until the file is closed; a kill freezes what is on disk, which covers  *)
(* both "buffered data lost" and "flushed".                                *)
(*                                                                         *)
(* PROPERTY LEVEL: what a later process observes -- IsCached, Listed       *)
(* (cached_tasks), LoadOk / LoadedValue -- and NoPoison: a settled entry   *)
(* that is reported is loadable with a complete, consistent value (the old *)
(* or the new one).  ObsPoison is the same predicate over an observation   *)
(* record taken from the real code (SaveObs.tla).                          *)
(***************************************************************************)
EXTENDS Naturals, Sequences, FiniteSets, TLC

CONSTANTS Proto,       \* "meta-first" | "meta-last"
          Overwrite,   \* TRUE: a complete entry ("old") exists before the save
          Enumerate    \* TRUE: print poisoned settled states instead of failing on the first

VARIABLES dir, meta, data,   \* the entry on disk
          pc,                \* index of the next operation of the program (1-based)
          status,            \* "saving" | "cleanup" | "done" | "raised" | "killed"
          left,              \* clean-up: files still to remove (a set; removal order is the directory order, i.e. arbitrary)
          last,              \* name of the last completed operation (for the report)
          faults             \* number of faults so far (the properties quantify over single faults)

vars == <<dir, meta, data, pc, status, left, last, faults>>

Program == IF Proto = "meta-first"
           THEN <<"mkdir", "open_meta", "write_meta", "close_meta", "open_data", "write_data", "close_data">>
           ELSE <<"mkdir", "open_meta0", "close_meta0", "open_data", "write_data", "close_data",
                  "open_meta", "write_meta", "close_meta">>
HasCleanup == Proto = "meta-last"

Init == /\ dir = Overwrite
        /\ meta = IF Overwrite THEN "old" ELSE "absent"
        /\ data = IF Overwrite THEN "old" ELSE "absent"
        /\ pc = 1 /\ status = "saving" /\ left = {} /\ last = "start" /\ faults = 0

(* effect of a successful operation: possible <<meta', data', dir'>> *)
Effects(op) ==
  CASE op = "mkdir" -> {<<meta, data, TRUE>>}
    [] op \in {"open_meta", "open_meta0"} -> {<<"empty", data, dir>>}          \* open(..., 'w') truncates
    [] op = "close_meta0" -> {<<meta, data, dir>>}
    [] op = "write_meta" -> {<<"empty", data, dir>>, <<"partial", data, dir>>}
    [] op = "close_meta" -> {<<"new", data, dir>>}
    [] op = "open_data" -> {<<meta, "empty", dir>>}
    [] op = "write_data" -> {<<meta, "empty", dir>>, <<meta, "partial", dir>>}
    [] op = "close_data" -> {<<meta, "new", dir>>}

(* what a file that is open for writing holds after an exception closed it *)
AfterRaise(op) ==
  CASE op \in {"write_meta", "close_meta"} -> {<<"empty", data, dir>>, <<"partial", data, dir>>}
    [] op \in {"write_data", "close_data"} -> {<<meta, "empty", dir>>, <<meta, "partial", dir>>}
    [] OTHER -> {<<meta, data, dir>>}

Step ==                      \* the next operation succeeds
  /\ status = "saving" /\ pc <= Len(Program)
  /\ \E e \in Effects(Program[pc]) : meta' = e[1] /\ data' = e[2] /\ dir' = e[3]
  /\ last' = Program[pc]
  /\ pc' = pc + 1
  /\ status' = IF pc = Len(Program) THEN "done" ELSE "saving"
  /\ UNCHANGED <<left, faults>>

Raise ==                     \* the next operation raises (C12: storage error, pickling error, interrupt)
  /\ status = "saving" /\ pc <= Len(Program)
  /\ \E e \in AfterRaise(Program[pc]) : meta' = e[1] /\ data' = e[2] /\ dir' = e[3]
  /\ last' = Program[pc]
  /\ IF HasCleanup /\ dir' THEN status' = "cleanup" /\ left' = {"meta", "data"}
     ELSE status' = "raised" /\ left' = {}
  /\ faults' = faults + 1
  /\ UNCHANGED pc

CleanupStep ==               \* storage.delete: remove the files (in directory order), then the directory
  /\ status = "cleanup"
  /\ IF left # {}
     THEN \E f \in left : /\ left' = left \ {f}
                          /\ meta' = IF f = "meta" THEN "absent" ELSE meta
                          /\ data' = IF f = "data" THEN "absent" ELSE data
                          /\ UNCHANGED <<dir, status>>
     ELSE dir' = FALSE /\ status' = "raised" /\ UNCHANGED <<meta, data, left>>
  /\ UNCHANGED <<pc, last, faults>>

Kill ==                      \* the process is killed between two operations (or in the middle of a write / of the clean-up)
  /\ status \in {"saving", "cleanup"}
  /\ status' = "killed"
  /\ faults' = faults + 1
  /\ UNCHANGED <<dir, meta, data, pc, left, last>>

Next == Step \/ Raise \/ CleanupStep \/ Kill
Spec == Init /\ [][Next]_vars

-----------------------------------------------------------------------------
(* what a later process observes *)
Settled == status \in {"done", "raised", "killed"}
MetaValid == meta \in {"old", "new"}
IsCached == IF Proto = "meta-first" THEN dir ELSE dir /\ MetaValid
ListRaises == Proto = "meta-first" /\ dir /\ ~MetaValid          \* cached_tasks crashes on unreadable metadata
Listed == dir /\ MetaValid
LoadOk == dir /\ MetaValid /\ data \in {"old", "new"}
Consistent == meta = data

Poisoned == Settled /\ faults <= 1 /\ ( (IsCached /\ ~LoadOk) \/ ListRaises \/ (Listed /\ ~LoadOk) \/ (LoadOk /\ ~Consistent) )
NoPoison == IF Enumerate
            THEN (Poisoned => PrintT("@@" \o ToString(<<Proto, Overwrite, status, last, meta, data>>)))
            ELSE ~Poisoned
DoneIsLoadable == status = "done" => (IsCached /\ LoadOk /\ data = "new" /\ meta = "new")
RaisedLeavesNothingNew == status = "raised" /\ HasCleanup => ~dir

-----------------------------------------------------------------------------
(* the same judgement over an observation taken from the real code (see SaveObs.tla) *)
(* Two observers: a later Lab ("fresh") and the very Lab object that performed the save ("same"). *)
ObsPoison(o) ==
  \/ (o.is_cached \/ o.same_is_cached) /\ ~o.load_ok
  \/ o.list_raises \/ o.same_list_raises
  \/ (o.listed \/ o.same_listed) /\ ~o.load_ok
  \/ o.load_ok /\ ~(o.load_val = "new" \/ (o.overwrite /\ o.load_val = "old"))
  \/ o.load_ok /\ o.meta_val # o.load_val
  \/ o.rerun_applicable /\ ~o.rerun_ok
  \/ o.rerun_applicable /\ o.rerun_ok /\ ~(o.rerun_val = "new" \/ (o.overwrite /\ o.rerun_val = "old"))
=============================================================================
