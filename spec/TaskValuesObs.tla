---------------------------- MODULE TaskValuesObs ----------------------------
(***************************************************************************)
(* Observation specification for task values (C07, C09, C15).              *)
(* LV_OBS: one JSON object per line = what the real code did with one case *)
(* <<type, raw value>> of the TaskValues grammar (lv/rigs/values.py);      *)
(* LV_LISTINGS: one object per queried task type (cached_tasks output).    *)
(* The POSTCONDITION prints, for every case, the names of the formulas     *)
(* that are false.  Formulas named Cxx_... give the verdict for property   *)
(* Cxx; "drift_ser" only says that the serialised form differs from the    *)
(* transcription Ser (the implementation-level model needs updating).      *)
(***************************************************************************)
EXTENDS TaskValues, Json, IOUtils

Obs == ndJsonDeserialize(IOEnv.LV_OBS)
Listings == ndJsonDeserialize(IOEnv.LV_LISTINGS)

B(o) == Build(o.ty, <<o.raw>>)

C15_AcceptReject(o) == (o.accepted <=> Accepts(o.raw)) /\ (~o.accepted => o.exc = "TaskError")
C15_Normalised(o) == o.accepted => KC(o.norm) = KC(Norm("p", o.raw))       \* dict keys compared by their string content
C15_Frozen(o) == o.accepted => (o.frozen /\ o.hashable)
C15_EqHash(o) == o.accepted => (o.eq_twin /\ o.neq_other_types)
C15_Pickle(o) == o.accepted => (o.pickle_ok /\ o.pickle_after_run_clean)
C15_Deps(o) == (o.accepted /\ Accepts(o.raw)) => o.deps = DepsOf(B(o))
C07_Deterministic(o) == o.accepted => \A i \in DOMAIN o.variants : o.variants[i][2] = o.key
C07_StorageAccepts(o) == o.accepted => o.storage_accepts
(* every earlier case -- or, when the harness has grouped the observations by key string ("same_key"), every earlier case *)
(* of the same group (whose key is re-checked here to be equal)                                                           *)
Earlier(k) == IF "same_key" \in DOMAIN Obs[k] THEN {Obs[k].same_key[i] : i \in DOMAIN Obs[k].same_key} ELSE 1..(k - 1)
C07_Distinct(k) == (Obs[k].accepted /\ Accepts(Obs[k].raw) /\ ~Obs[k].main_module_type) =>
                     \A j \in Earlier(k) :
                        /\ "same_key" \in DOMAIN Obs[k] => (j < k /\ Obs[j].key = Obs[k].key)
                        /\ (Obs[j].accepted /\ Accepts(Obs[j].raw) /\ ~Obs[j].main_module_type /\ Obs[j].key = Obs[k].key)
                              => KC(B(Obs[j])) = KC(B(Obs[k]))     \* the same tree, dict keys taken as their string content
C09_Reconstruct(o) == o.accepted => o.recon_eq
C09_ListedOnce(o) == o.accepted => /\ o.ran /\ o.listed_own = 1 /\ o.listed_elsewhere = 0
                                    /\ o.listed_key_ok /\ o.listed_meta_ok /\ o.listed_loads_stored
                                    /\ o.relisted_meta_ok      \* (sampled) listed again after forked workers rewrote the entry
DriftSer(o) == (o.accepted /\ Accepts(o.raw)) => o.ser = Ser(B(o))

Fails(k) ==
  LET o == Obs[k] IN
  (IF C15_AcceptReject(o) THEN {} ELSE {"C15_AcceptReject"}) \cup (IF C15_Normalised(o) THEN {} ELSE {"C15_Normalised"})
  \cup (IF C15_Frozen(o) THEN {} ELSE {"C15_Frozen"}) \cup (IF C15_EqHash(o) THEN {} ELSE {"C15_EqHash"})
  \cup (IF C15_Pickle(o) THEN {} ELSE {"C15_Pickle"}) \cup (IF C15_Deps(o) THEN {} ELSE {"C15_Deps"})
  \cup (IF C07_Deterministic(o) THEN {} ELSE {"C07_Deterministic"}) \cup (IF C07_StorageAccepts(o) THEN {} ELSE {"C07_StorageAccepts"})
  \cup (IF IOEnv.LV_PROP # "C07" \/ C07_Distinct(k) THEN {} ELSE {"C07_Distinct"})     \* pairwise: only when C07 is judged
  \cup (IF C09_Reconstruct(o) THEN {} ELSE {"C09_Reconstruct"}) \cup (IF C09_ListedOnce(o) THEN {} ELSE {"C09_ListedOnce"})
  \cup (IF DriftSer(o) THEN {} ELSE {"drift_ser"})

ListingOk(r) == r.listing_foreign = 0 /\ r.listing_dups = 0 /\ r.listing_error = ""

Verdicts ==
  /\ \A k \in 1..Len(Obs) :
       TLCGet("distinct") >= 0 /\ PrintT("@@" \o ToJson([id |-> Obs[k].id, fails |-> SetToSeq(Fails(k))]))
  /\ \A k \in 1..Len(Listings) :
       PrintT("@@" \o ToJson([id |-> Listings[k].id, fails |-> IF ListingOk(Listings[k]) THEN <<>> ELSE <<"C09_NoForeign">>]))
=============================================================================
