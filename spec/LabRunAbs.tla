----------------------------- MODULE LabRunAbs -----------------------------
(***************************************************************************)
(* PROPERTY LEVEL of one Lab.run_tasks call.                               *)
(*                                                                         *)
(* This module has no next-state relation.  It declares the abstract       *)
(* variables the listed properties talk about and, over them, the state    *)
(* invariants (named Cxx_Name) and step predicates (named Cxx_Name_Step) that say what the   *)
(* properties say and nothing more: any ready task may be submitted in any *)
(* order, any batch order is fine, ...                                     *)
(*                                                                         *)
(* It is used twice:                                                       *)
(*  - LabRun.tla (implementation level) instantiates it through a          *)
(*    refinement mapping and TLC checks every formula on the whole bounded *)
(*    state graph of the model of today's code;                            *)
(*  - LabRunAbsTrace.tla extends it and drives the variables from events   *)
(*    recorded from the real code (a total monitor): a recorded execution  *)
(*    violates Cxx iff a formula named Cxx_... is false on it.                     *)
(*                                                                         *)
(* A configuration cfg is JSON-shaped (sequences, not sets) so the same    *)
(* value can come from a .json file written by the harness:                *)
(*   n        number of tasks; tasks are 1..n, dependencies have lower ids *)
(*   deps     deps[t]   = sorted sequence of the direct dependencies of t  *)
(*   typ      typ[t]    = type index of t                                  *)
(*   maxpar   maxpar[y] = max_parallel of type y (Unlimited = 99)          *)
(*   tcache   tcache[y] = TRUE iff type y is cacheable (cache # None)      *)
(*   cached0  tasks cached before the call                                 *)
(*   req      the requested list (duplicates allowed)                      *)
(*   backend  "serial" | "fork" | "spawn"                                  *)
(*   maxw     max_workers (None is passed as the CPU count)                *)
(*   cof      continue_on_failure;   bust  bust_cache                      *)
(*   fail     tasks whose run() raises                                     *)
(*   storage  TRUE iff the Lab has a storage                               *)
(*   badload  cached tasks whose stored result cannot be read (corrupted)  *)
(***************************************************************************)
EXTENDS Naturals, Sequences, FiniteSets, TLC

Unlimited == 99

VARIABLES
  cfg,        \* the configuration (constant during a behaviour)
  phase,      \* "running" | "returned" | "raised"
  exc,        \* <<class of the exception run_tasks raised, class of its __cause__>> or <<>>
  subCount,   \* subCount[t] = number of times t was submitted to the runner
  viaCache,   \* tasks submitted with use_cache = TRUE
  slot,       \* tasks that hold a worker slot (process started, outcome not yet collected)
  inrun,      \* tasks inside run()
  nslot,      \* nslot[t] = number of processes started for t whose outcome is not yet collected (a task can hold
  nrun,       \* more than one slot / be inside run() more than once only if something starts it twice): nrun likewise
  runCount,   \* runCount[t] = number of times run() was entered for t
  loadCount,  \* loadCount[t] = number of cache loads of t's result by a worker
  fin,        \* worker-level outcome: "none" | "ok" | "fail"
  done,       \* coordinator-level outcome (complete_task): "none" | "ok" | "fail"
  died,       \* tasks whose worker process died
  held,       \* tasks whose result the runner holds in memory
  captured,   \* requested tasks whose value has been captured for the return value
  dig,        \* dig[t] = value executed or loaded for t, <<>> if none
  reads,      \* set of [t, d, ok, v]: inside run() of t, reading d.result gave v (ok) or raised
  atrest,     \* TRUE in the state in which the coordinator is at rest waiting for completions
  intCount,   \* number of interrupts delivered so far
  outKeys,    \* keys of the returned dict, in order
  outVals,    \* values of the returned dict, in order
  lateStart,  \* a process / run() was started after run_tasks had exited or been interrupted
  idlePolls,  \* consecutive resting points at which no worker was alive and nothing was queued
  cachedNow,  \* tasks reported cached (is_cached) after the call; only meaningful when obsCache
  cacheVals,  \* cacheVals[t] = value a fresh load of t gives after the call, <<>> if none/unloadable
  obsCache,   \* TRUE once the post-call cache observation has been made
  envok,      \* set of <<t, fact>> process-environment facts observed in run() that contradict the backend's promise
  marks,      \* post-call observation: set of [t, marked, anc, tok] -- an instance of task t reachable from the
              \* requested instances through the chain of tasks anc; marked iff its result_meta is set; tok = a token
              \* of the outcome it is marked with (start and duration)
  emitted,    \* sequence of message tokens emitted by tasks (logger records, stdout / stderr lines)
  emitBy,     \* emitBy[i] = the task that emitted emitted[i]
  delivered,  \* sequence of message tokens that reached the caller's labtech logger handlers
  obsLogs,    \* TRUE once the delivered messages have been observed (after the call)
  \* ---- beyond the listed properties (G..): task names and progress bars
  subSeq,     \* the tasks in the order in which they were submitted to the runner
  names,      \* names[t] = the process name the worker of t saw while running / loading t, "" if none observed
  pbar        \* pbar[y] = [made, total, n, closed]: the progress bar of type y (y = 0: a bar that belongs to no type)

avars == <<cfg, phase, exc, subCount, viaCache, slot, inrun, runCount, loadCount, fin, done, died, held,
           captured, dig, reads, atrest, intCount, outKeys, outVals, lateStart, idlePolls,
           cachedNow, cacheVals, obsCache, envok, marks, emitted, emitBy, delivered, obsLogs, subSeq, names, pbar>>

-----------------------------------------------------------------------------
(* Derived notions *)

Range(s) == {s[i] : i \in DOMAIN s}
Tasks == 1..cfg.n
Types == DOMAIN cfg.maxpar
Deps(t) == Range(cfg.deps[t])
Req == Range(cfg.req)
Cached0 == Range(cfg.cached0)
FailSet == Range(cfg.fail)
BadLoad == Range(cfg.badload)
Cacheable(t) == cfg.storage /\ cfg.tcache[cfg.typ[t]]
UsesCache(t) == t \in Cached0 /\ ~cfg.bust
Needed(t) == IF UsesCache(t) THEN {} ELSE Deps(t)
MaxW == IF cfg.backend = "serial" THEN 1 ELSE cfg.maxw
Min2(a, b) == IF a < b THEN a ELSE b

RECURSIVE ClosureFrom(_, _)
ClosureFrom(S, k) == IF k = 0 THEN S
                     ELSE ClosureFrom(IF k \in S THEN S \cup Needed(k) ELSE S, k - 1)
Closure == ClosureFrom(Req, cfg.n)          \* dependencies have lower ids, so one downward pass suffices

RECURSIVE DedupFrom(_, _)
DedupFrom(s, acc) == IF s = <<>> THEN acc
                     ELSE DedupFrom(Tail(s), IF Head(s) \in Range(acc) THEN acc ELSE Append(acc, Head(s)))
Dedup(s) == DedupFrom(s, <<>>)

RECURSIVE SelectSeq2(_, _)
SelectSeq2(s, S) == IF s = <<>> THEN <<>>
                    ELSE IF Head(s) \in S THEN <<Head(s)>> \o SelectSeq2(Tail(s), S) ELSE SelectSeq2(Tail(s), S)

(* The value a plain sequential dependency-first evaluation gives.  A task's *)
(* run() returns <<id, epoch it saw in the context, values of its deps>>.    *)
(* Entries cached before the call were computed under epoch 0, this call     *)
(* runs under epoch 1.                                                       *)
Nulls == IF "nulls" \in DOMAIN cfg THEN Range(cfg.nulls) ELSE {}       \* tasks whose run() returns None (reported as <<"None">>)
RECURSIVE ValE(_, _)
ValE(t, e) == IF t \in Nulls THEN <<"None">> ELSE <<t, e, [i \in 1..Len(cfg.deps[t]) |-> ValE(cfg.deps[t][i], e)]>>
RECURSIVE Val(_)
Val(t) == IF UsesCache(t) THEN ValE(t, 0)
          ELSE IF t \in Nulls THEN <<"None">>
          ELSE <<t, 1, [i \in 1..Len(cfg.deps[t]) |-> Val(cfg.deps[t][i])]>>

DoneSet == {t \in Tasks : done[t] # "none"}
Submitted == {t \in Tasks : subCount[t] > 0}
InFlight == Submitted \ DoneSet
TypeOf(S, y) == {t \in S : cfg.typ[t] = y}
StillNeeded(d) == \E t \in Closure : d \in Needed(t) /\ done[t] = "none"
Runnable == {t \in Closure : done[t] = "none" /\ Needed(t) \subseteq DoneSet}
RECURSIVE SumAllowed(_)
SumAllowed(Y) == IF Y = {} THEN 0
                 ELSE LET y == CHOOSE z \in Y : TRUE
                      IN Min2(cfg.maxpar[y], Cardinality(TypeOf(Runnable, y))) + SumAllowed(Y \ {y})
Calm == phase = "running" /\ intCount = 0      \* no interrupt, no exit yet: the scheduler's normal regime
AllOk == \A t \in Closure : done[t] = "ok"
AnyFail == \E t \in Tasks : done[t] = "fail"

-----------------------------------------------------------------------------
(* C01  run_tasks returns exactly each requested task's own computed result *)

NothingCanFail == FailSet = {} /\ died = {} /\ (BadLoad \cap Cached0 = {} \/ cfg.bust)
C01_Returns == (phase # "running" /\ intCount = 0 /\ NothingCanFail) => phase = "returned"    \* an acyclic all-succeeding set returns
C01_Keys   == (phase = "returned" /\ (AllOk \/ (NothingCanFail /\ intCount = 0))) => outKeys = Dedup(cfg.req)
C01_Values == phase = "returned" =>
                /\ Len(outVals) = Len(outKeys)
                /\ \A i \in DOMAIN outKeys : outKeys[i] \in Tasks /\ outVals[i] = Val(outKeys[i])
C01_Digest == \A t \in Tasks : dig[t] # <<>> => dig[t] = Val(t)

(* C02  a task never starts before all of its dependencies have finished *)

C02_SubmitAfterDeps_Step ==
    \A t \in Tasks : subCount'[t] > subCount[t] => Needed(t) \subseteq DoneSet
C02_RunAfterDeps_Step ==
    \A t \in inrun' \ inrun : \A d \in Deps(t) : fin[d] # "none"
C02_StartAfterSubmit_Step ==
    \A t \in slot' \ slot : subCount'[t] > 0
C02_RealResult ==
    \A r \in reads :
         /\ r.d \in Deps(r.t)
         /\ r.ok => (fin[r.d] = "ok" /\ r.v = dig[r.d])
         /\ fin[r.d] # "ok" => ~r.ok
         /\ fin[r.d] = "ok" => r.ok                \* the result of a dependency that finished in this run can be read

(* C03  each distinct task runs at most once, and only if its result is needed *)

C03_OnlyNeeded == /\ Submitted \subseteq Closure
                  /\ \A t \in Tasks : (runCount[t] > 0 \/ loadCount[t] > 0) => t \in Closure
C03_AtMostOnce == \A t \in Tasks : subCount[t] <= 1 /\ runCount[t] + loadCount[t] <= 1
C03_LoadIffCached ==
    /\ \A t \in Submitted : (t \in viaCache) <=> UsesCache(t)
    /\ \A t \in Tasks : runCount[t] > 0 => ~UsesCache(t)
    /\ \A t \in Tasks : loadCount[t] > 0 => UsesCache(t)
C03_OutcomeStable_Step ==
    \A t \in Tasks : /\ done[t] # "none" => done'[t] = done[t]
                     /\ fin[t] # "none" => fin'[t] = fin[t]

C03_Marked ==
    \A m \in marks : (done[m.t] = "ok" /\ \A a \in Range(m.anc) : runCount[a] > 0) => m.marked
(* ... with the outcome of its own task: instances of one task carry one outcome, instances of different tasks different ones *)
Processed(m) == done[m.t] = "ok" /\ m.marked /\ \A a \in Range(m.anc) : runCount[a] > 0
C03_MarkedOwn ==
    \A m1, m2 \in marks : (Processed(m1) /\ Processed(m2)) => ((m1.t = m2.t) <=> (m1.tok = m2.tok))

(* C04  per-type and global concurrency limits are never exceeded *)

(* counted per process, not per task: two processes executing the same task at once occupy two workers *)
RECURSIVE SumOf(_, _)
SumOf(f, S) == IF S = {} THEN 0 ELSE LET x == CHOOSE x \in S : TRUE IN f[x] + SumOf(f, S \ {x})
C04_Workers == /\ Cardinality(slot) <= MaxW /\ Cardinality(inrun) <= MaxW
               /\ SumOf(nslot, Tasks) <= MaxW /\ SumOf(nrun, Tasks) <= MaxW
C04_Type == \A y \in Types : /\ Cardinality(TypeOf(slot, y)) <= cfg.maxpar[y]
                             /\ Cardinality(TypeOf(inrun, y)) <= cfg.maxpar[y]
                             /\ SumOf(nslot, TypeOf(Tasks, y)) <= cfg.maxpar[y]
                             /\ SumOf(nrun, TypeOf(Tasks, y)) <= cfg.maxpar[y]

(* C05  runnable work is started whenever capacity is free *)

C05_AtRest == (atrest /\ Calm) => Cardinality(slot) = Min2(MaxW, SumAllowed(Types))

(* C10  one task's failure never disturbs unrelated tasks *)

OwnFailure(t) == t \in FailSet \/ t \in died \/ (t \in BadLoad /\ UsesCache(t)) \/ (\E d \in Needed(t) : done[d] = "fail" \/ fin[d] = "fail")
C10_OnlyOwnFailures == \A t \in Tasks : (done[t] = "fail" \/ fin[t] = "fail") => OwnFailure(t)
C10_Continue ==
    (cfg.cof /\ intCount = 0 /\ phase # "running") =>
       /\ phase = "returned"
       /\ \A t \in Closure : done[t] # "none"
       /\ outKeys = SelectSeq2(Dedup(cfg.req), {t \in Tasks : done[t] = "ok"})
C10_NoValueForFailed ==
    /\ phase = "returned" => \A i \in DOMAIN outKeys : done[outKeys[i]] = "ok"
    /\ \A t \in Tasks : (fin[t] = "ok" /\ runCount[t] > 0) => \A d \in Deps(t) : fin[d] = "ok"     \* no success built on a failed dependency
    /\ obsCache => \A t \in cachedNow : (done[t] = "fail" \/ t \notin Closure) => t \in Cached0
C10_CachedOk ==
    (obsCache /\ intCount = 0) => \A t \in Tasks : (done[t] = "ok" /\ Cacheable(t)) => t \in cachedNow
C10_FailFast ==
    (~cfg.cof /\ intCount = 0 /\ phase # "running") =>
       /\ AnyFail => (phase = "raised" /\ exc # <<>> /\ exc[1] = "LabError")
       /\ phase = "raised" => AnyFail
C10_NoStartAfterExit == ~lateStart

(* C11  run_tasks always terminates; it never deadlocks or spins *)

C11_NoIdleWait == (atrest /\ Calm) => slot # {}
C11_NoSpin == idlePolls <= 2

(* C14  one Ctrl-C drains the run gracefully; a second one stops it at once *)

(* The corner "continue_on_failure=False and a task fails while the first interrupt is   *)
(* being drained" is claimed by neither C10 nor C14: the two statements conflict there. *)
C14xC10 == ~cfg.cof /\ AnyFail
C14_ExitClass ==
    (intCount >= 1 /\ phase # "running" /\ ~C14xC10) => (phase = "raised" /\ exc # <<>> /\ exc[1] = "KeyboardInterrupt")
C14_NoStartAfterInterrupt_Step ==
    intCount >= 1 => slot' \subseteq slot
(* nothing is still inside run() when run_tasks leaves after a single interrupt (the slot bookkeeping of the coordinator is *)
(* not the measure: an interrupt may land between a hook and the step it reports)                                         *)
C14_RunningFinish ==
    (intCount = 1 /\ phase # "running" /\ ~C14xC10) => inrun = {}

C14_RunningCached ==
    (intCount = 1 /\ obsCache /\ cfg.backend # "serial" /\ ~C14xC10) =>
       \A t \in Tasks : ( /\ runCount[t] > 0 /\ Cacheable(t) /\ t \notin FailSet /\ t \notin died
                          /\ \A d \in Deps(t) : fin[d] = "ok" ) => t \in cachedNow
C14_CacheConsistent ==
    obsCache => \A t \in cachedNow \ (BadLoad \cap Cached0) : cacheVals[t] # <<>> /\ (cacheVals[t] = Val(t) \/ cacheVals[t] = ValE(t, 0))

(* C16  each task runs in the environment its backend and context promise *)

C16_Env == envok = {}

(* C17  intermediate results live exactly as long as a dependent needs them *)

C17_Retained == Calm => \A d \in Tasks : (done[d] = "ok" /\ StillNeeded(d)) => d \in held
C17_Prompt == (atrest /\ Calm) => \A d \in held : StillNeeded(d)
C17_Captured == \A t \in Req : done[t] = "ok" => t \in captured
C17_EmptyAtReturn == phase = "returned" => held = {}
C17_OnlyNew_Step == held' \subseteq held \cup {t \in Tasks : done[t] = "none"}


(* C19  messages emitted by a task reach the caller's log exactly once *)

Count(m, s) == Cardinality({i \in DOMAIN s : s[i] = m})
C19_ExactlyOnce ==
    (obsLogs /\ phase = "returned") =>
       \A m \in Range(emitted) \cup Range(delivered) : Count(m, emitted) = Count(m, delivered)
(* run_tasks may also leave by raising (fail-fast LabError): what the tasks it has completed -- in particular the *)
(* failing one -- emitted has been delivered by then; and nothing is ever delivered twice or invented.           *)
C19_DeliveredBeforeRaise ==
    (obsLogs /\ phase = "raised" /\ intCount = 0) =>
       \A i \in DOMAIN emitted : done[emitBy[i]] # "none" => Count(emitted[i], delivered) = Count(emitted[i], emitted)
C19_NeverTwice ==
    obsLogs => \A m \in Range(delivered) : Count(m, delivered) <= Count(m, emitted)


-----------------------------------------------------------------------------
(* Beyond the listed properties.                                                                        *)
(* G01  every task is run / loaded under the process name  <type name>[<k>], k = its 1-based rank among *)
(*      the submissions of its type, zero-padded to ceil(log10(number of planned tasks of the type))    *)
(* G02  one progress bar per planned type, total = planned tasks of the type, advanced once per         *)
(*      successful completion, closed when run_tasks exits                                              *)

TName(y) == IF "tnames" \in DOMAIN cfg THEN cfg.tnames[y] ELSE "T"
Digits(c) == IF c <= 1 THEN 0 ELSE IF c <= 10 THEN 1 ELSE IF c <= 100 THEN 2 ELSE 3      \* ceil(log10(c))
RECURSIVE ZFill(_, _)
ZFill(str, w) == IF Len(str) >= w THEN str ELSE ZFill("0" \o str, w)
MkName(y, k, w) == TName(y) \o "[" \o ZFill(ToString(k), w) \o "]"
FirstPos(s, t) == CHOOSE i \in DOMAIN s : s[i] = t /\ \A j \in 1..(i - 1) : s[j] # t
Rank(t) == Cardinality({i \in 1..FirstPos(subSeq, t) : cfg.typ[subSeq[i]] = cfg.typ[t]})
G01_Names == \A t \in Tasks : names[t] # "" =>
                /\ t \in Range(subSeq)
                /\ names[t] = MkName(cfg.typ[t], Rank(t), Digits(Cardinality(TypeOf(Closure, cfg.typ[t]))))
OkOf(y) == {t \in TypeOf(Tasks, y) : done[t] = "ok"}
G02_Bars == Submitted # {} =>
               /\ ~pbar[0].made
               /\ \A y \in Types : /\ pbar[y].made <=> TypeOf(Closure, y) # {}
                                   /\ pbar[y].made => pbar[y].total = Cardinality(TypeOf(Closure, y))
G02_Count == \A y \in Types : /\ pbar[y].n <= Cardinality(OkOf(y))
                              /\ ((atrest \/ phase # "running") /\ intCount = 0) => pbar[y].n = Cardinality(OkOf(y))
G02_Closed == phase # "running" => \A y \in Types : pbar[y].made => pbar[y].closed
=============================================================================
