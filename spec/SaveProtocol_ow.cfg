CONSTANTS
  Proto = "meta-last"
  Overwrite = TRUE
  Enumerate = FALSE
SPECIFICATION Spec
INVARIANT NoPoison
INVARIANT DoneIsLoadable
INVARIANT RaisedLeavesNothingNew
