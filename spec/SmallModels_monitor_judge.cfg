CONSTANTS
  MaxLen = 0
  Which = "monitor"
SPECIFICATION Spec
POSTCONDITION JudgePost
