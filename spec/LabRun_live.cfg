CONSTANTS
  Logs = FALSE
  RecordHist = FALSE
  MaxInt = 0
  Grow = FALSE
  AllowDie = TRUE
SPECIFICATION FairSpec
PROPERTY C11_Termination
