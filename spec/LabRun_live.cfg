CONSTANTS
  Logs = FALSE
  RecordHist = FALSE
  MaxInt = 0
  AllowDie = TRUE
SPECIFICATION FairSpec
PROPERTY C11_Termination
