------------------------------ MODULE FutureFSM ------------------------------
(***************************************************************************)
(* labtech.runners.process.Future as a state machine (growth beyond the    *)
(* listed properties; the executor model in LabRun relies on it).          *)
(*   PENDING --set_result / set_exception--> FINISHED                      *)
(*   any     --cancel-->                     CANCELLED                     *)
(*   set_* on a done future raises FutureStateError; result() returns the  *)
(*   value / raises the stored exception only when FINISHED.               *)
(* Spec enumerates every call sequence up to MaxLen with the reply each    *)
(* call must give; with LV_OBS set, Judge compares the replies observed    *)
(* from the real class (lv/rigs/future.py) with Reply.                     *)
(***************************************************************************)
EXTENDS Naturals, Sequences, FiniteSets, TLC, Json, IOUtils

CONSTANTS MaxLen
Ops == {"set_result", "set_exception", "cancel", "result", "done", "cancelled"}

VARIABLES st, hist
fvars == <<st, hist>>

(* reply of an operation in state s, and the next state *)
Reply(s, op) ==
  CASE op = "set_result" -> IF s = "pending" THEN "none" ELSE "raise:FutureStateError"
    [] op = "set_exception" -> IF s = "pending" THEN "none" ELSE "raise:FutureStateError"
    [] op = "cancel" -> "none"
    [] op = "result" -> IF s = "ok" THEN "value" ELSE IF s = "ex" THEN "raise:stored" ELSE "raise:FutureStateError"
    [] op = "done" -> IF s \in {"ok", "ex", "cancelled"} THEN "True" ELSE "False"
    [] op = "cancelled" -> IF s = "cancelled" THEN "True" ELSE "False"
NextState(s, op) ==
  CASE op = "set_result" /\ s = "pending" -> "ok"
    [] op = "set_exception" /\ s = "pending" -> "ex"
    [] op = "cancel" -> "cancelled"
    [] OTHER -> s

Init == st = "pending" /\ hist = <<>>
Do(op) == /\ Len(hist) < MaxLen
          /\ hist' = Append(hist, <<op, Reply(st, op)>>)
          /\ st' = NextState(st, op)
Next == \E op \in Ops : Do(op)
Spec == Init /\ [][Next]_fvars

TypeOK == st \in {"pending", "ok", "ex", "cancelled"}
FinishedIsFinal == [][(st \in {"ok", "ex"}) => (st' = st \/ st' = "cancelled")]_fvars
CancelledIsFinal == [][(st = "cancelled") => (st' = "cancelled")]_fvars
EmitHistory == (Len(hist) = MaxLen) => PrintT("@@" \o ToJson(hist))

(* ---- judging replies observed from the real class ---- *)
Obs == IF "LV_OBS" \in DOMAIN IOEnv THEN ndJsonDeserialize(IOEnv.LV_OBS) ELSE <<>>
RECURSIVE Expected(_, _)
Expected(s, ops) == IF ops = <<>> THEN <<>> ELSE <<Reply(s, Head(ops))>> \o Expected(NextState(s, Head(ops)), Tail(ops))
Judge(x) == \A k \in 1..Len(Obs) : x >= 0 /\
   PrintT("@@" \o ToJson([id |-> Obs[k].id, ok |-> (Obs[k].replies = Expected("pending", Obs[k].ops))]))
JudgePost == Judge(TLCGet("distinct"))
=============================================================================
