----------------------------- MODULE CycleCheck -----------------------------
(***************************************************************************)
(* TaskState.check_cyclic_dependences (labtech/lab.py) as an explicit      *)
(* model (growth beyond the listed properties; the planner of C01/C04      *)
(* relies on the dependency graph being acyclic: a cycle would leave tasks *)
(* pending for ever).                                                      *)
(*                                                                         *)
(* IMPLEMENTATION LEVEL: the code's depth-first search with ONE visited    *)
(* flag per task (set when a task is first reached, never cleared) and the *)
(* set of tasks on the current path; the tasks are taken in the order of   *)
(* pending_tasks, the dependencies of a task in the order Ord (Python      *)
(* iterates a set in an arbitrary order: both directions are checked).     *)
(* PROPERTY LEVEL: HasCycle -- some task reaches itself.                   *)
(* One initial state per dependency graph over 1..N (self-loops included). *)
(* Real task objects cannot be cyclic (frozen values), so the binding      *)
(* replays every graph on the real method over stand-in nodes              *)
(* (lv/rigs/cyclecheck.py) and TLC judges the verdicts.                    *)
(***************************************************************************)
EXTENDS Naturals, Sequences, FiniteSets, TLC, Json, IOUtils, FiniteSetsExt, SequencesExt

CONSTANTS N, Loops            \* Loops: self-loops allowed in the enumerated graphs
Nodes == 1..N
Graphs == {g \in [Nodes -> SUBSET Nodes] : Loops \/ \A n \in Nodes : n \notin g[n]}

(* ---- property level ---- *)
RECURSIVE ReachN(_, _, _)
ReachN(g, S, k) == IF k = 0 THEN S ELSE ReachN(g, S \cup UNION {g[n] : n \in S}, k - 1)
Reach(g, n) == ReachN(g, g[n], N)                       \* everything reachable from n by one or more edges
HasCycle(g) == \E n \in Nodes : n \in Reach(g, n)

(* ---- implementation level: r = [cyc |-> BOOLEAN, vis |-> set of visited tasks] threaded through the search ---- *)
Ord(S, up) == IF up THEN SetToSortSeq(S, <) ELSE SetToSortSeq(S, >)
RECURSIVE Check(_, _, _, _, _), Each(_, _, _, _, _, _)
Check(g, task, parents, r, up) == Each(g, task, Ord(g[task], up), parents, r, up)
Each(g, task, deps, parents, r, up) ==
  IF deps = <<>> \/ r.cyc THEN r
  ELSE LET d == Head(deps) IN
       IF d = task \/ d \in parents THEN [r EXCEPT !.cyc = TRUE]
       ELSE IF d \notin r.vis
            THEN Each(g, task, Tail(deps), parents, Check(g, d, parents \cup {task}, [r EXCEPT !.vis = @ \cup {d}], up), up)
            ELSE Each(g, task, Tail(deps), parents, r, up)
RECURSIVE Outer(_, _, _, _)
Outer(g, pend, r, up) ==
  IF pend = <<>> \/ r.cyc THEN r
  ELSE IF Head(pend) \in r.vis THEN Outer(g, Tail(pend), r, up)
  ELSE Outer(g, Tail(pend), Check(g, Head(pend), {}, [r EXCEPT !.vis = @ \cup {Head(pend)}], up), up)
Algo(g, pend, up) == Outer(g, pend, [cyc |-> FALSE, vis |-> {}], up).cyc

VARIABLE g
GSpec == g \in Graphs /\ [][UNCHANGED g]_g
Up == [i \in Nodes |-> i]
Down == [i \in Nodes |-> N + 1 - i]
I_Verdict == \A pend \in {Up, Down} : \A up \in BOOLEAN : Algo(g, pend, up) = HasCycle(g)
I_VisitedAll == ~HasCycle(g) => Outer(g, Up, [cyc |-> FALSE, vis |-> {}], TRUE).vis = Nodes     \* an accepted plan was searched completely
Emit == PrintT("@@" \o ToJson([i \in Nodes |-> SetToSortSeq(g[i], <)]))

(* ---- judging what the real method did ---- *)
Obs == IF "LV_OBS" \in DOMAIN IOEnv THEN ndJsonDeserialize(IOEnv.LV_OBS) ELSE <<>>
GraphOf(o) == [i \in 1..Len(o.graph) |-> {o.graph[i][j] : j \in DOMAIN o.graph[i]}]
RECURSIVE ReachM(_, _, _)
ReachM(gr, S, k) == IF k = 0 THEN S ELSE ReachM(gr, S \cup UNION {gr[n] : n \in S}, k - 1)
CyclicM(gr) == \E n \in DOMAIN gr : n \in ReachM(gr, gr[n], Len(gr))
Agrees(o) == o.verdict = (IF CyclicM(GraphOf(o)) THEN "cyclic" ELSE "ok")
Judge(x) == \A k \in 1..Len(Obs) : x >= 0 /\ PrintT("@@" \o ToJson([id |-> Obs[k].id, ok |-> Agrees(Obs[k])]))
JudgePost == Judge(TLCGet("distinct"))
=============================================================================
