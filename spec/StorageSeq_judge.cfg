CONSTANTS
  MaxLen = 0
SPECIFICATION Spec
POSTCONDITION JudgePost
