CONSTANTS
  MaxLen = 5
  Which = "monitor"
SPECIFICATION Spec
INVARIANT ActiveNeverEnded
INVARIANT DeliveredNeverBlank
INVARIANT EmitHistory
PROPERTY NothingDeliveredTwice
