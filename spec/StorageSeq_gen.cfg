CONSTANTS
  MaxLen = 4
SPECIFICATION Spec
INVARIANT DataOnlyInDirs
INVARIANT EmitHistory
PROPERTY RejectedCallsChangeNothing
PROPERTY DeleteRemovesEverything
PROPERTY OtherKeysUntouched
