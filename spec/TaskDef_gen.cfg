SPECIFICATION CaseSpec
INVARIANT I_SubResets
INVARIANT I_ReservedRefused
INVARIANT I_RunRequired
INVARIANT Emit
