----------------------------- MODULE StorageSeq -----------------------------
(***************************************************************************)
(* The Storage interface as a sequential object (growth beyond the listed  *)
(* properties; the caches of C06-C09, C12, C13 sit on it).                  *)
(*                                                                         *)
(* One model for both providers: LocalStorage and an FsspecStorage over    *)
(* fsspec's local filesystem (the reference implementation sketched in     *)
(* labtech/storage.py) must give the same replies to every call sequence.  *)
(*                                                                         *)
(*   state   dirs  : the keys that exist                                   *)
(*           data  : [key x file -> value or "absent"]                     *)
(*   calls   exists(k)  file_handle(k, f, 'w').write(v)  file_handle(k, f, *)
(*           'r').read()  file_handle(k, f, 'a').write(v)  delete(k)       *)
(*           find_keys()                                                   *)
(* Deliberate deviation of the code from the "obvious" object, modelled as *)
(* it is: file_handle creates the key directory BEFORE the file is opened  *)
(* (and before the filename is validated), so a failed read or a rejected  *)
(* filename makes the key exist (ReadCreatesKey).                          *)
(* Spec enumerates every call sequence up to MaxLen; Judge compares the    *)
(* replies of the real classes (lv/rigs/storageseq.py) with the model.     *)
(***************************************************************************)
EXTENDS Naturals, Sequences, FiniteSets, TLC, Json, IOUtils

CONSTANTS MaxLen

GoodKeys == {"k1", "k2"}
BadKeys == {"a/b", ""}                 \* rejected by validate_file_path_key: StorageError, nothing changes
Files == {"f", "g"}
BadFiles == {"s/h"}                    \* a filename that is not directly inside the key directory: StorageError / ValueError
Ops == {<<"exists", k, "", "">> : k \in GoodKeys \cup {"a/b"}}
       \cup {<<"write", "k1", "f", "v1">>, <<"write", "k1", "f", "v2">>, <<"write", "k1", "g", "v1">>, <<"write", "k2", "f", "v1">>,
             <<"write", "k2", "s/h", "v1">>, <<"append", "k1", "f", "v2">>}
       \cup {<<"read", "k1", "f", "">>, <<"read", "k1", "g", "">>, <<"read", "k2", "f", "">>, <<"read", "", "f", "">>}
       \cup {<<"delete", k, "", "">> : k \in GoodKeys \cup {"a/b"}}
       \cup {<<"keys", "", "", "">>}

Absent == "absent"
Init0 == [dirs |-> {}, data |-> [x \in GoodKeys \X Files |-> Absent]]

Step(s, op) ==
  LET k == op[2]  f == op[3]  v == op[4] IN
  IF k \notin GoodKeys THEN s
  ELSE CASE op[1] \in {"write", "append", "read"} ->
              [dirs |-> s.dirs \cup {k},                                            \* ReadCreatesKey: mkdir comes first
               data |-> IF f \notin Files \/ op[1] = "read" THEN s.data
                        ELSE [s.data EXCEPT ![<<k, f>>] = IF op[1] = "append" /\ @ # Absent THEN @ \o v ELSE v]]
         [] op[1] = "delete" -> [dirs |-> s.dirs \ {k}, data |-> [x \in GoodKeys \X Files |-> IF x[1] = k THEN Absent ELSE s.data[x]]]
         [] OTHER -> s

SortedKeys(S) == IF S = {"k1", "k2"} THEN <<"k1", "k2">> ELSE IF S = {"k1"} THEN <<"k1">> ELSE IF S = {"k2"} THEN <<"k2">> ELSE <<>>
Reply(s, op) ==
  LET k == op[2]  f == op[3] IN
  IF op[1] = "keys" THEN ToString(SortedKeys(s.dirs))
  ELSE IF k \notin GoodKeys THEN "raise:StorageError"
  ELSE CASE op[1] = "exists" -> IF k \in s.dirs THEN "True" ELSE "False"
         [] op[1] \in {"write", "append"} -> IF f \in Files THEN "none" ELSE "raise:BadFilename"
         [] op[1] = "read" -> IF s.data[<<k, f>>] = Absent THEN "raise:FileNotFoundError" ELSE s.data[<<k, f>>]
         [] OTHER -> "none"

VARIABLES st, hist
svars == <<st, hist>>
Init == st = Init0 /\ hist = <<>>
Next == \E op \in Ops : Len(hist) < MaxLen /\ hist' = Append(hist, op) /\ st' = Step(st, op)
Spec == Init /\ [][Next]_svars

(* what a cache relies on *)
DataOnlyInDirs == \A x \in GoodKeys \X Files : st.data[x] # Absent => x[1] \in st.dirs
RejectedCallsChangeNothing == [][\A op \in Ops : (hist' = Append(hist, op) /\ op[2] \notin GoodKeys) => st' = st]_svars
DeleteRemovesEverything == [][\A op \in Ops : (hist' = Append(hist, op) /\ op[1] = "delete" /\ op[2] \in GoodKeys) =>
                                 (op[2] \notin st'.dirs /\ \A f \in Files : st'.data[<<op[2], f>>] = Absent)]_svars
OtherKeysUntouched == [][\A op \in Ops : hist' = Append(hist, op) =>
                            \A k \in GoodKeys \ {op[2]} : (k \in st'.dirs <=> k \in st.dirs) /\ \A f \in Files : st'.data[<<k, f>>] = st.data[<<k, f>>]]_svars
EmitHistory == (Len(hist) = MaxLen) => PrintT("@@" \o ToJson(hist))

(* ---- judging what the real classes did ---- *)
Obs == IF "LV_OBS" \in DOMAIN IOEnv THEN ndJsonDeserialize(IOEnv.LV_OBS) ELSE <<>>
RECURSIVE Replies(_, _)
Replies(s, ops) == IF ops = <<>> THEN <<>> ELSE <<Reply(s, Head(ops))>> \o Replies(Step(s, Head(ops)), Tail(ops))
Agrees(o) == o.replies = Replies(Init0, o.ops)
Judge(x) == \A k \in 1..Len(Obs) : x >= 0 /\ PrintT("@@" \o ToJson([id |-> Obs[k].id, ok |-> Agrees(Obs[k])]))
JudgePost == Judge(TLCGet("distinct"))
=============================================================================
