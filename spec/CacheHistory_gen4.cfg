CONSTANTS
  MaxLen = 4
  Emit = FALSE
SPECIFICATION Spec
INVARIANT OnlyCacheableStored
INVARIANT StoredValuesWellFormed
INVARIANT PrintHistory
PROPERTY OnlyOwnEntryChanges
