CONSTANTS
  MaxLen = 4
  Faults = FALSE
  Emit = FALSE
SPECIFICATION Spec
INVARIANT OnlyCacheableStored
INVARIANT StoredValuesWellFormed
INVARIANT PrintHistory
PROPERTY OnlyOwnEntryChanges
