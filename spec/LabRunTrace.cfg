CONSTANTS
  Grow = FALSE
  Logs = TRUE
  RecordHist = FALSE
  MaxInt = 2
  AllowDie = TRUE
SPECIFICATION TraceSpec
CONSTRAINT Note
POSTCONDITION VerdictsPost
CHECK_DEADLOCK FALSE
