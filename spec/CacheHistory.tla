---------------------------- MODULE CacheHistory ----------------------------
(***************************************************************************)
(* The Lab as a plain map from task to stored result, over a history of    *)
(* API calls (C06, C08, and the run-level half of C03 / C09).              *)
(*                                                                         *)
(* A universe u is a configuration in the shape used by LabRun (n, deps,   *)
(* typ, tcache; storage = FALSE models Lab(storage=None)).  The state is   *)
(*   store[t]  = <<>> if t has no entry, else [val, meta]: the value stored *)
(*               for t and the result_meta token of the execution that     *)
(*               stored it                                                 *)
(*   clock     = number of run_tasks calls so far (the k-th call runs      *)
(*               under context epoch k, which makes every execution's      *)
(*               value distinguishable)                                    *)
(* Operations (each one step; the return value is part of the step):       *)
(*   Run(req, bust)   executed = closure of req under "needed unless       *)
(*                    cached and not bust"; every executed task of a       *)
(*                    cacheable type replaces exactly its own entry; loads *)
(*                    return what is stored                                *)
(*   Uncache(S)       removes exactly the entries of S                     *)
(* The module is used as a generator of histories (Spec, hist printed at   *)
(* MaxLen) and, through CacheHistoryTrace, as the judge of histories       *)
(* replayed on real Labs.                                                  *)
(***************************************************************************)
EXTENDS CacheMap, Json, IOUtils, SequencesExt

CONSTANTS MaxLen,   \* bound on the length of generated histories
          Emit,     \* print every generated history of length MaxLen (simulation mode)
          Faults    \* a run_tasks call may have one task whose run() raises

Universes == JsonDeserialize(IOEnv.LV_UNIVERSES)

VARIABLES ui, u, store, clock, hist
hvars == <<ui, u, store, clock, hist>>

-----------------------------------------------------------------------------
(* ---- generator of histories ---- *)
ReqLists(c) == IF c.twins THEN {<<t>> : t \in TasksOf(c)} ELSE    \* twins are equal in Python: one call requests one of them
               {s \in UNION {[1..k -> TasksOf(c)] : k \in 1..2} : \A i, j \in DOMAIN s : i < j => s[i] # s[j]}
               \cup {SetToSeq(TasksOf(c))}

Init == /\ ui \in 1..Len(Universes)
        /\ u = Universes[ui]
        /\ store = [t \in TasksOf(u) |-> <<>>]
        /\ clock = 0
        /\ hist = <<>>

GenMeta(t) == <<"m", clock + 1, t>>

Run(req, bust, F) ==
  /\ clock' = clock + 1
  /\ store' = StoreAfterRunF(u, store, req, bust, clock + 1, GenMeta, F)
  /\ hist' = Append(hist, [op |-> "run", req |-> req, bust |-> bust, ts |-> <<>>, fail |-> SetToSeq(F)])
  /\ UNCHANGED <<ui, u>>

Uncache(S) ==
  /\ store' = StoreAfterUncache(u, store, S)
  /\ hist' = Append(hist, [op |-> "uncache", req |-> <<>>, bust |-> FALSE, ts |-> SetToSeq(S), fail |-> <<>>])
  /\ UNCHANGED <<ui, u, clock>>

Next == /\ Len(hist) < MaxLen
        /\ \/ \E req \in ReqLists(u), bust \in BOOLEAN :
                 \E F \in {{}} \cup (IF Faults /\ ~u.twins THEN {{t} : t \in TasksOf(u)} ELSE {}) : Run(req, bust, F)
           \/ \E S \in (SUBSET TasksOf(u)) \ {{}} : Uncache(S)

Spec == Init /\ [][Next]_hvars

(* design-level sanity of the map model *)
OnlyCacheableStored == \A t \in TasksOf(u) : Has(store, t) => CacheableIn(u, t)
StoredValuesWellFormed == \A t \in TasksOf(u) : Has(store, t) => store[t].val[1] = t
(* the map changes only where the call says so: a run replaces exactly the entries of the cacheable tasks it *)
(* executed, an uncache removes exactly the named entries                                                     *)
OnlyOwnEntryChanges ==
  [][\A t \in TasksOf(u) : store'[t] # store[t] =>
        LET h == hist'[Len(hist')] IN
        \/ h.op = "uncache" /\ t \in SetOf(h.ts) /\ store'[t] = <<>>
        \/ h.op = "run" /\ t \in OkExecuted(u, store, h.req, h.bust, SetOf(h.fail)) /\ CacheableIn(u, t)]_hvars
PrintHistory == (Emit /\ Len(hist) = MaxLen /\ hist[1].op = "run") =>
                   PrintT("@@" \o ToJson([ui |-> ui, hist |-> hist]))
=============================================================================
