SPECIFICATION TSpec
ACTION_CONSTRAINT CheckStep
POSTCONDITION Verdicts
CHECK_DEADLOCK FALSE
