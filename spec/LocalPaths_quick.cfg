CONSTANTS
  KeyLen = 2
  FileLen = 2
SPECIFICATION DummySpec
INVARIANT DummyInv
POSTCONDITION EmitPost
