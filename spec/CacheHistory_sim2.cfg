CONSTANTS
  MaxLen = 2
  Faults = TRUE
  Emit = TRUE
SPECIFICATION Spec
INVARIANT OnlyCacheableStored
INVARIANT StoredValuesWellFormed
INVARIANT PrintHistory
PROPERTY OnlyOwnEntryChanges
