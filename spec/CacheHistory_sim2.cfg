CONSTANTS
  MaxLen = 2
  Emit = TRUE
SPECIFICATION Spec
INVARIANT OnlyCacheableStored
INVARIANT StoredValuesWellFormed
INVARIANT PrintHistory
PROPERTY OnlyOwnEntryChanges
