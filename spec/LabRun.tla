------------------------------- MODULE LabRun -------------------------------
(***************************************************************************)
(* IMPLEMENTATION LEVEL of one Lab.run_tasks call: one action per critical *)
(* section of labtech/lab.py (TaskState, TaskCoordinator.run),             *)
(* labtech/runners/serial.py and labtech/runners/process.py                *)
(* (ProcessRunner, ProcessExecutor, Future), plus the workers.             *)
(* Deterministic where the code is deterministic.                          *)
(*                                                                         *)
(* The module instantiates the property level (LabRunAbs) through an       *)
(* explicit refinement mapping; TLC checks every Abs!Cxx_... formula on the    *)
(* whole state graph of every configuration of a family.  Configurations   *)
(* are read from the JSON file named by the environment variable LV_CFGS   *)
(* (written by lv/families.py, which also drives the rigs with the very    *)
(* same dictionaries).                                                     *)
(*                                                                         *)
(* With RecordHist = TRUE the environment's decisions (which worker        *)
(* finishes / exits / dies between which observations of the coordinator,  *)
(* where an interrupt lands) are recorded in hist and printed at the end   *)
(* of each behaviour: lv/rigs replays them into the real code.             *)
(***************************************************************************)
EXTENDS Naturals, Sequences, FiniteSets, TLC, Json, IOUtils, SequencesExt

CONSTANTS Logs,         \* model log records (C19)
          RecordHist,   \* record environment decisions in hist
          MaxInt,       \* maximum number of interrupts (0..2)
          AllowDie,     \* worker processes may die
          Grow          \* also model task naming and progress bars (G01, G02); FALSE keeps those variables constant

Cfgs == JsonDeserialize(IOEnv.LV_CFGS)

VARIABLES
  ci, cfg,
  \* ---- coordinator (lab.py)
  pc,          \* program location, see the actions
  mode,        \* "normal" | "drain" (after the 1st interrupt) | "final" (after the 2nd)
  pend,        \* TaskState.pending_tasks (insertion order matters)
  ddeps,       \* task_to_direct_dependencies
  pdeps,       \* task_to_pending_dependencies
  pdependents, \* task_to_pending_dependents
  active,      \* union of type_to_active_tasks
  ready,       \* the list being submitted by the for loop
  cur,         \* the (task, res) pair the body of process_completed_tasks works on; 0 = none
  removable,   \* tasks_with_removable_results
  exitk,       \* how run_tasks is going to exit: "" | "return" | "LabError" | "KeyboardInterrupt"
  \* ---- runner
  rmap,        \* results_map (keys)
  ftt,         \* future_to_task (insertion order), as a sequence of tasks
  subq,        \* SerialRunner.task_submissions
  uc,          \* uc[t]: use_cache flag the task was submitted with
  \* ---- executor
  epend,       \* _pending_future_to_thunk (FIFO)
  running,     \* _running_id_to_future_and_process
  fut,         \* Future state: "none" | "pending" | "ok" | "ex" | "died" | "cancelled"
  rq,          \* result queue
  deadS,       \* dead_process_futures sampled at the start of _consume_result_queue
  batch,       \* done futures still to be yielded by this wait()
  \* ---- workers and cache
  wst,         \* "idle" | "run" | "put" | "exited" | "dead"
  wres,        \* outcome the worker put on the queue: "ok" | "ex"
  view,        \* view[t]: results visible to t's run() (fork: memory at fork time; spawn: handed over)
  cached,      \* keys present in the storage
  store,       \* store[t]: value stored for t, <<>> if none
  \* ---- property-level bookkeeping (history variables; never read by the actions above)
  subCount, viaCache, inrun, runCount, loadCount, fin, done, died, captured, dig, reads,
  intCount, outKeys, outVals,
  lg,          \* log records: [q |-> log queue, del |-> delivered to the caller's handlers, emit |-> emitted] (sequences of task ids)
  hist,
  \* ---- naming and progress (TaskCoordinator.run; only when Grow)
  tdigits,     \* task_type_max_digits
  tcount,      \* task_type_to_task_count
  tname,       \* tname[t] = the number in the task_name t was submitted with, 0 = not submitted
  pb,          \* pbars: pb[y] = [made, total, n, closed]
  subSeq       \* submissions in order

vars == <<ci, cfg, pc, mode, pend, ddeps, pdeps, pdependents, active, ready, cur, removable, exitk,
          rmap, ftt, subq, uc, epend, running, fut, rq, deadS, batch,
          wst, wres, view, cached, store,
          subCount, viaCache, inrun, runCount, loadCount, fin, done, died, captured, dig, reads,
          intCount, outKeys, outVals, lg, hist, tdigits, tcount, tname, pb, subSeq>>

gvars == <<tdigits, tcount, tname, pb, subSeq>>
CeilLog10(c) == IF c <= 1 THEN 0 ELSE IF c <= 10 THEN 1 ELSE IF c <= 100 THEN 2 ELSE 3      \* math.ceil(math.log10(c)), c >= 1
RECURSIVE ZFillL(_, _)
ZFillL(str, w) == IF Len(str) >= w THEN str ELSE ZFillL("0" \o str, w)                   \* str.zfill
-----------------------------------------------------------------------------
Tasks == 1..cfg.n
Serial == cfg.backend = "serial"
MaxW == IF Serial THEN 1 ELSE cfg.maxw
Min2(a, b) == IF a < b THEN a ELSE b
Deps(t) == Range(cfg.deps[t])
Req == Range(cfg.req)
FailSet == Range(cfg.fail)
Cacheable(t) == cfg.storage /\ cfg.tcache[cfg.typ[t]]
Rec(e) == IF RecordHist THEN Append(hist, e) ELSE hist
RemoveSeq(s, x) == SelectSeq(s, LAMBDA y : y # x)
RECURSIVE DedupFrom(_, _)
DedupFrom(s, acc) == IF s = <<>> THEN acc
                     ELSE DedupFrom(Tail(s), IF Head(s) \in Range(acc) THEN acc ELSE Append(acc, Head(s)))
Dedup(s) == DedupFrom(s, <<>>)

(* ---- TaskState.process_tasks / get_ready_tasks (lab.py:59-124) ---- *)

UseCacheNow(t) == ~cfg.bust /\ t \in cached           \* TaskCoordinator.use_cache
DepSeq(t) == IF UseCacheNow(t) THEN <<>> ELSE cfg.deps[t]

RECURSIVE AppendNew(_, _)                             \* OrderedSet.add over a sequence
AppendNew(acc, s) == IF s = <<>> THEN acc
                     ELSE IF Head(s) \in Range(acc) THEN AppendNew(acc, Tail(s))
                     ELSE AppendNew(Append(acc, Head(s)), Tail(s))

RECURSIVE Levels(_, _)                                \* process_tasks: breadth first by levels
Levels(level, acc) ==
  IF level = <<>> THEN acc
  ELSE Levels(FlattenSeq([i \in 1..Len(level) |-> DepSeq(level[i])]), AppendNew(acc, level))

RECURSIVE ReadyFrom(_, _, _)                          \* get_ready_tasks
ReadyFrom(s, counts, acc) ==
  IF s = <<>> THEN acc
  ELSE LET t == Head(s)  y == cfg.typ[t] IN
       IF pdeps[t] # {} \/ counts[y] >= cfg.maxpar[y]
       THEN ReadyFrom(Tail(s), counts, acc)
       ELSE ReadyFrom(Tail(s), [counts EXCEPT ![y] = @ + 1], Append(acc, t))

TypeCounts == [y \in DOMAIN cfg.maxpar |-> Cardinality({t \in active : cfg.typ[t] = y})]
PendingCount == IF Serial THEN Len(subq) ELSE Len(ftt)  \* Runner.pending_task_count

-----------------------------------------------------------------------------
Init ==
  /\ ci \in 1..Len(Cfgs)
  /\ cfg = Cfgs[ci]
  /\ pc = "plan" /\ mode = "normal"
  /\ pend = <<>> /\ ready = <<>> /\ cur = 0 /\ removable = {} /\ exitk = ""
  /\ ddeps = [t \in Tasks |-> {}] /\ pdeps = [t \in Tasks |-> {}] /\ pdependents = [t \in Tasks |-> {}]
  /\ active = {}
  /\ rmap = {} /\ ftt = <<>> /\ subq = <<>> /\ uc = [t \in Tasks |-> FALSE]
  /\ epend = <<>> /\ running = {} /\ fut = [t \in Tasks |-> "none"] /\ rq = <<>> /\ deadS = {} /\ batch = <<>>
  /\ wst = [t \in Tasks |-> "idle"] /\ wres = [t \in Tasks |-> "ok"] /\ view = [t \in Tasks |-> {}]
  /\ cached = Range(cfg.cached0)
  /\ store = [t \in Tasks |-> <<>>]      \* filled below through StoredVal; kept lazy: see LoadVal
  /\ subCount = [t \in Tasks |-> 0] /\ viaCache = {} /\ inrun = {}
  /\ runCount = [t \in Tasks |-> 0] /\ loadCount = [t \in Tasks |-> 0]
  /\ fin = [t \in Tasks |-> "none"] /\ done = [t \in Tasks |-> "none"] /\ died = {}
  /\ captured = {} /\ dig = [t \in Tasks |-> <<>>] /\ reads = {}
  /\ intCount = 0 /\ outKeys = <<>> /\ outVals = <<>>
  /\ hist = <<>>
  /\ lg = [q |-> <<>>, del |-> <<>>, emit |-> <<>>]
  /\ tdigits = [y \in DOMAIN cfg.maxpar |-> 0] /\ tcount = [y \in DOMAIN cfg.maxpar |-> 0]
  /\ tname = [t \in Tasks |-> 0] /\ subSeq = <<>>
  /\ pb = [y \in 0..Len(cfg.maxpar) |-> [made |-> FALSE, total |-> 0, n |-> 0, closed |-> FALSE]]

(* value stored before the call for t \in cached0: computed under epoch 0 *)
RECURSIVE ValE(_, _)
ValE(t, e) == <<t, e, [i \in 1..Len(cfg.deps[t]) |-> ValE(cfg.deps[t][i], e)]>>
LoadVal(t) == IF store[t] # <<>> THEN store[t] ELSE ValE(t, 0)

-----------------------------------------------------------------------------
(* ---- coordinator ---- *)

Plan ==                                               \* TaskState.__init__ (before the try block)
  /\ pc = "plan"
  /\ LET p == Levels(cfg.req, <<>>)
         dd == [t \in Tasks |-> IF t \in Range(p) THEN Range(DepSeq(t)) ELSE {}] IN
       /\ pend' = p
       /\ ddeps' = dd
       /\ pdeps' = dd
       /\ pdependents' = [d \in Tasks |-> {t \in Tasks : d \in dd[t]}]
       \* Counter(type(task) for task in pending_tasks); task_type_max_digits; one pbar per counted type
       /\ IF Grow
          THEN LET cnt == [y \in DOMAIN cfg.maxpar |-> Cardinality({t \in Range(p) : cfg.typ[t] = y})] IN
               /\ tdigits' = [y \in DOMAIN cfg.maxpar |-> CeilLog10(cnt[y])]
               /\ pb' = [y \in 0..Len(cfg.maxpar) |->
                           IF y > 0 /\ cnt[y] > 0 THEN [made |-> TRUE, total |-> cnt[y], n |-> 0, closed |-> FALSE] ELSE pb[y]]
          ELSE UNCHANGED <<tdigits, pb>>
  /\ UNCHANGED <<tcount, tname, subSeq>>
  /\ pc' = "loop"
  /\ UNCHANGED <<ci, cfg, mode, active, ready, cur, removable, exitk, rmap, ftt, subq, uc, epend, running, fut,
                 rq, deadS, batch, wst, wres, view, cached, store, subCount, viaCache, inrun, runCount,
                 loadCount, fin, done, died, captured, dig, reads, intCount, outKeys, outVals, hist, lg>>

LoopTop ==                                            \* while (pending_tasks or pending_task_count): get_ready_tasks
  /\ pc = "loop"
  /\ IF pend # <<>> \/ PendingCount > 0
     THEN /\ ready' = ReadyFrom(pend, TypeCounts, <<>>)
          /\ pc' = "submit"
          /\ UNCHANGED exitk
     ELSE /\ pc' = "closing" /\ exitk' = "return" /\ UNCHANGED ready
  /\ UNCHANGED <<ci, cfg, mode, pend, ddeps, pdeps, pdependents, active, cur, removable, rmap, ftt, subq, uc,
                 epend, running, fut, rq, deadS, batch, wst, wres, view, cached, store, subCount, viaCache,
                 inrun, runCount, loadCount, fin, done, died, captured, dig, reads, intCount, outKeys,
                 outVals, hist, lg>>
  /\ UNCHANGED gvars

(* ProcessExecutor._start_processes applied to a pending queue ep and a running set run *)
StartK(ep, run) == Min2(IF MaxW > Cardinality(run) THEN MaxW - Cardinality(run) ELSE 0, Len(ep))
StartSet(ep, run) == {ep[i] : i \in 1..StartK(ep, run)}
ReadsOf(t, vw) == {[t |-> t, d |-> d, ok |-> d \in vw[t], v |-> IF d \in vw[t] THEN dig[d] ELSE <<>>] : d \in Deps(t)}
NewReads(S, vw) == UNION {ReadsOf(t, vw) : t \in {s \in S : ~uc'[s]}}  \* reads happen at the start of run()

Submit ==                                             \* for task in ready_tasks: start_task; runner.submit_task
  /\ pc = "submit"
  /\ IF ready = <<>>
     THEN /\ pc' = "wait_sample"
          /\ UNCHANGED <<ready, pend, active, subq, ftt, uc, epend, running, fut, wst, view, inrun, runCount,
                         loadCount, reads, subCount, viaCache, tcount, tname, subSeq>>
     ELSE LET t == Head(ready)  u == UseCacheNow(t) IN
          /\ ready' = Tail(ready)
          \* task_type_to_task_count[type(task)] += 1; task_name = f'{type.__name__}[{count zero-filled}]'
          /\ IF Grow THEN /\ tcount' = [tcount EXCEPT ![cfg.typ[t]] = @ + 1]
                          /\ tname' = [tname EXCEPT ![t] = tcount[cfg.typ[t]] + 1]
                          /\ subSeq' = Append(subSeq, t)
             ELSE UNCHANGED <<tcount, tname, subSeq>>
          /\ pend' = RemoveSeq(pend, t)
          /\ active' = active \cup {t}
          /\ uc' = [uc EXCEPT ![t] = u]
          /\ subCount' = [subCount EXCEPT ![t] = @ + 1]
          /\ viaCache' = IF u THEN viaCache \cup {t} ELSE viaCache
          /\ pc' = "submit"
          /\ IF Serial
             THEN /\ subq' = Append(subq, t)
                  /\ UNCHANGED <<ftt, epend, running, fut, wst, view, inrun, runCount, loadCount, reads>>
             ELSE LET ep == Append(epend, t)
                      S == StartSet(ep, running) IN
                  /\ ftt' = Append(ftt, t)
                  /\ fut' = [fut EXCEPT ![t] = "pending"]
                  /\ epend' = SubSeq(ep, StartK(ep, running) + 1, Len(ep))
                  /\ running' = running \cup S
                  /\ wst' = [x \in Tasks |-> IF x \in S THEN "run" ELSE wst[x]]
                  \* spawn: the results handed over are chosen at submit time; fork: memory at start time
                  /\ LET handed == IF u THEN {} ELSE Deps(t) \cap rmap
                         vw == [x \in Tasks |-> IF x = t /\ cfg.backend = "spawn" THEN handed
                                                ELSE IF x \in S /\ cfg.backend = "fork" THEN rmap
                                                ELSE view[x]] IN
                     /\ view' = vw
                     /\ reads' = reads \cup NewReads(S, vw)
                  /\ inrun' = inrun \cup {x \in S : ~uc'[x]}
                  /\ runCount' = [x \in Tasks |-> IF x \in S /\ ~uc'[x] THEN runCount[x] + 1 ELSE runCount[x]]
                  /\ loadCount' = [x \in Tasks |-> IF x \in S /\ uc'[x] THEN loadCount[x] + 1 ELSE loadCount[x]]
                  /\ UNCHANGED subq
  /\ UNCHANGED <<ci, cfg, mode, ddeps, pdeps, pdependents, cur, removable, exitk, rmap, rq, deadS, batch, wres,
                 cached, store, fin, done, died, captured, dig, intCount, outKeys, outVals, hist, lg>>
  /\ UNCHANGED <<tdigits, pb>>

(* where the coordinator goes when a wait()'s batch has been processed *)
AfterWait == IF mode = "normal" THEN "loop" ELSE IF mode = "drain" THEN "drain_check" ELSE "closing"

(* ---- the outcome of executing or loading t, used by workers and by the serial runner ---- *)
RunOk(t) == IF uc[t] THEN t \notin Range(cfg.badload) ELSE (t \notin FailSet /\ \A d \in Deps(t) : d \in view[t])
RunVal(t) == IF uc[t] THEN LoadVal(t)
             ELSE <<t, 1, [i \in 1..Len(cfg.deps[t]) |-> dig[cfg.deps[t][i]]]>>
Saves(t) == ~uc[t] /\ RunOk(t) /\ Cacheable(t)

(* ---- ProcessRunner.wait / ProcessExecutor.wait ---- *)

WaitSample ==             \* _consume_log_queue; liveness sample at the start of _consume_result_queue
  /\ pc = "wait_sample" /\ ~Serial
  /\ lg' = [lg EXCEPT !.del = @ \o lg.q, !.q = <<>>]                \* _consume_log_queue
  /\ deadS' = {t \in running : wst[t] \in {"exited", "dead"}}
  /\ pc' = "wait_consume"
  /\ hist' = Rec(<<"S">>)
  /\ UNCHANGED <<ci, cfg, mode, pend, ddeps, pdeps, pdependents, active, ready, cur, removable, exitk, rmap, ftt,
                 subq, uc, epend, running, fut, rq, batch, wst, wres, view, cached, store, subCount, viaCache,
                 inrun, runCount, loadCount, fin, done, died, captured, dig, reads, intCount, outKeys, outVals>>
  /\ UNCHANGED gvars

WaitConsume ==            \* the consumer thread: take everything that is in the queue now (maybe nothing)
  /\ pc = "wait_consume"
  /\ LET got == {rq[i] : i \in DOMAIN rq} \cap running IN      \* an item for a stopped future kills the thread: skipped
       /\ running' = running \ got
       /\ fut' = [t \in Tasks |-> IF t \in got /\ fut[t] = "pending" THEN wres[t] ELSE fut[t]]
  /\ rq' = <<>>
  /\ pc' = "wait_dead"
  /\ hist' = Rec(<<"C">>)
  /\ UNCHANGED <<ci, cfg, mode, pend, ddeps, pdeps, pdependents, active, ready, cur, removable, exitk, rmap, ftt,
                 subq, uc, epend, deadS, batch, wst, wres, view, cached, store, subCount, viaCache, inrun,
                 runCount, loadCount, fin, done, died, captured, dig, reads, intCount, outKeys, outVals, lg>>
  /\ UNCHANGED gvars

WaitDead ==               \* fail the futures of dead processes; _start_processes; split_done_futures
  /\ pc = "wait_dead"
  /\ UNCHANGED lg
  /\ LET deadNow == {t \in deadS : fut[t] = "pending"}
         f1 == [t \in Tasks |-> IF t \in deadNow THEN "died" ELSE fut[t]]
         run1 == running \ deadNow
         S == StartSet(epend, run1) IN
       /\ fut' = f1
       /\ running' = run1 \cup S
       /\ epend' = SubSeq(epend, StartK(epend, run1) + 1, Len(epend))
       /\ wst' = [x \in Tasks |-> IF x \in S THEN "run" ELSE wst[x]]
       /\ LET vw == [x \in Tasks |-> IF x \in S /\ cfg.backend = "fork" THEN rmap ELSE view[x]] IN
            /\ view' = vw
            /\ reads' = reads \cup UNION {ReadsOf(t, vw) : t \in {s \in S : ~uc[s]}}
       /\ inrun' = inrun \cup {x \in S : ~uc[x]}
       /\ runCount' = [x \in Tasks |-> IF x \in S /\ ~uc[x] THEN runCount[x] + 1 ELSE runCount[x]]
       /\ loadCount' = [x \in Tasks |-> IF x \in S /\ uc[x] THEN loadCount[x] + 1 ELSE loadCount[x]]
       /\ batch' = SelectSeq(ftt, LAMBDA t : f1[t] # "pending")
  /\ deadS' = {}
  /\ pc' = IF Logs THEN "wait_drain2" ELSE "iter"       \* (the second drain only matters when log records are modelled)
  /\ UNCHANGED <<ci, cfg, mode, pend, ddeps, pdeps, pdependents, active, ready, cur, removable, exitk, rmap, ftt,
                 subq, uc, rq, wres, cached, store, subCount, viaCache, fin, done, died, captured, dig,
                 intCount, outKeys, outVals, lg, hist>>
  /\ UNCHANGED gvars

WaitDrain2 ==             \* back in ProcessRunner.wait: handle the log records of the tasks that have just completed
  /\ pc = "wait_drain2"
  /\ lg' = [lg EXCEPT !.del = @ \o lg.q, !.q = <<>>]                \* second drain, after executor.wait
  /\ pc' = "iter"
  /\ UNCHANGED <<ci, cfg, mode, pend, ddeps, pdeps, pdependents, active, ready, cur, removable, exitk, rmap, ftt,
                 subq, uc, epend, running, fut, rq, deadS, batch, wst, wres, view, cached, store, subCount, viaCache,
                 inrun, runCount, loadCount, fin, done, died, captured, dig, reads, intCount, outKeys, outVals, hist>>
  /\ UNCHANGED gvars

Iter ==                   \* for future in done: prune it, skip cancelled, publish the result, yield
  /\ pc = "iter"
  /\ IF batch = <<>>
     THEN /\ pc' = AfterWait
          /\ exitk' = IF mode = "final" THEN "KeyboardInterrupt" ELSE exitk
          /\ UNCHANGED <<batch, ftt, rmap, cur>>
     ELSE LET t == Head(batch) IN
          /\ batch' = Tail(batch)
          /\ ftt' = RemoveSeq(ftt, t)
          /\ UNCHANGED exitk
          /\ IF fut[t] = "cancelled"
             THEN pc' = "iter" /\ UNCHANGED <<rmap, cur>>
             ELSE /\ rmap' = IF fut[t] = "ok" THEN rmap \cup {t} ELSE rmap
                  /\ cur' = t
                  /\ pc' = "body"
  /\ UNCHANGED <<ci, cfg, mode, pend, ddeps, pdeps, pdependents, active, ready, removable, subq, uc, epend,
                 running, fut, rq, deadS, wst, wres, view, cached, store, subCount, viaCache, inrun, runCount,
                 loadCount, fin, done, died, captured, dig, reads, intCount, outKeys, outVals, hist, lg>>
  /\ UNCHANGED gvars

(* ---- SerialRunner.wait ---- *)

SerPop ==                 \* popleft; the caller is now busy executing this one task
  /\ pc = "wait_sample" /\ Serial
  /\ IF subq = <<>>
     THEN /\ pc' = AfterWait
          /\ exitk' = IF mode = "final" THEN "KeyboardInterrupt" ELSE exitk
          /\ UNCHANGED <<subq, cur, running, wst, view, inrun, runCount, loadCount, reads>>
     ELSE LET t == Head(subq) IN
          /\ subq' = Tail(subq)
          /\ cur' = t
          /\ running' = {t}
          /\ wst' = [wst EXCEPT ![t] = "run"]
          /\ view' = [view EXCEPT ![t] = rmap]
          /\ inrun' = IF uc[t] THEN inrun ELSE inrun \cup {t}
          /\ runCount' = [runCount EXCEPT ![t] = IF uc[t] THEN @ ELSE @ + 1]
          /\ loadCount' = [loadCount EXCEPT ![t] = IF uc[t] THEN @ + 1 ELSE @]
          /\ reads' = reads \cup (IF uc[t] THEN {} ELSE
                         {[t |-> t, d |-> d, ok |-> d \in rmap, v |-> IF d \in rmap THEN dig[d] ELSE <<>>] : d \in Deps(t)})
          /\ pc' = "ser_run"
          /\ UNCHANGED exitk
  /\ UNCHANGED <<ci, cfg, mode, pend, ddeps, pdeps, pdependents, active, ready, removable, rmap, ftt, uc, epend,
                 fut, rq, deadS, batch, wres, cached, store, subCount, viaCache, fin, done, died, captured, dig,
                 intCount, outKeys, outVals, lg, hist, lg>>
  /\ UNCHANGED gvars

SerRun ==                 \* run_or_load_task inline; results_map[task] = result; yield
  /\ pc = "ser_run"
  /\ lg' = IF Logs /\ ~uc[cur] THEN [lg EXCEPT !.del = Append(@, cur), !.emit = Append(@, cur)] ELSE lg
  /\ LET t == cur  ok == RunOk(t) IN
       /\ fin' = [fin EXCEPT ![t] = IF ok THEN "ok" ELSE "fail"]
       /\ dig' = [dig EXCEPT ![t] = IF ok THEN RunVal(t) ELSE <<>>]
       /\ cached' = IF Saves(t) THEN cached \cup {t} ELSE cached
       /\ store' = [store EXCEPT ![t] = IF Saves(t) THEN RunVal(t) ELSE @]
       /\ fut' = [fut EXCEPT ![t] = IF ok THEN "ok" ELSE "ex"]
       /\ rmap' = IF ok THEN rmap \cup {t} ELSE rmap
       /\ inrun' = inrun \ {t}
       /\ wst' = [wst EXCEPT ![t] = "exited"]
  /\ running' = {}
  /\ pc' = "body"
  /\ UNCHANGED <<ci, cfg, mode, pend, ddeps, pdeps, pdependents, active, ready, cur, removable, exitk, ftt, subq,
                 uc, epend, rq, deadS, batch, wres, view, subCount, viaCache, runCount, loadCount, done, died,
                 captured, reads, intCount, outKeys, outVals, hist>>
  /\ UNCHANGED gvars

(* ---- body of process_completed_tasks ---- *)

Body ==                   \* capture; complete_task; handle_failure
  /\ pc = "body"
  /\ LET t == cur
         ok == fut[t] = "ok"
         pdts == [d \in Tasks |-> IF d \in ddeps[t] THEN pdependents[d] \ {t} ELSE pdependents[d]] IN
       /\ captured' = IF ok /\ t \in Req THEN captured \cup {t} ELSE captured
       /\ done' = [done EXCEPT ![t] = IF ok THEN "ok" ELSE "fail"]
       /\ active' = active \ {t}
       /\ pdeps' = [x \in Tasks |-> IF x \in pdependents[t] THEN pdeps[x] \ {t} ELSE pdeps[x]]
       /\ pdependents' = pdts
       /\ removable' = {d \in ddeps[t] : pdts[d] = {}} \cup (IF pdts[t] = {} THEN {t} ELSE {})
       /\ pb' = IF Grow /\ ok THEN [pb EXCEPT ![cfg.typ[t]] = [@ EXCEPT !.n = @ + 1]] ELSE pb      \* pbars[type(task)].update(1)
       /\ IF ~ok /\ ~cfg.cof
          THEN pc' = "closing" /\ exitk' = "LabError" /\ cur' = 0
          ELSE pc' = "remove" /\ UNCHANGED <<exitk, cur>>
  /\ UNCHANGED <<tdigits, tcount, tname, subSeq>>
  /\ UNCHANGED <<ci, cfg, mode, pend, ddeps, ready, rmap, ftt, subq, uc, epend, running, fut, rq, deadS, batch,
                 wst, wres, view, cached, store, subCount, viaCache, inrun, runCount, loadCount, fin, died, dig,
                 reads, intCount, outKeys, outVals, hist, lg>>

RemoveResults ==          \* runner.remove_results(tasks_with_removable_results)
  /\ pc = "remove"
  /\ rmap' = rmap \ removable
  /\ removable' = {}
  /\ cur' = 0
  /\ pc' = IF Serial THEN AfterWait ELSE "iter"
  /\ exitk' = IF Serial /\ mode = "final" THEN "KeyboardInterrupt" ELSE exitk
  /\ UNCHANGED <<ci, cfg, mode, pend, ddeps, pdeps, pdependents, active, ready, ftt, subq, uc, epend, running,
                 fut, rq, deadS, batch, wst, wres, view, cached, store, subCount, viaCache, inrun, runCount,
                 loadCount, fin, done, died, captured, dig, reads, intCount, outKeys, outVals, hist, lg>>
  /\ UNCHANGED gvars

(* ---- interrupts ---- *)

InTry == {"loop", "submit", "wait_sample", "wait_consume", "wait_dead", "wait_drain2", "iter", "body", "remove", "ser_run",
          "int1_cancel", "drain_check", "int2_stop"}

Interrupt ==              \* KeyboardInterrupt delivered to the calling thread at this location
  /\ intCount < MaxInt
  /\ pc \in InTry \cup {"plan"}
  \* C14 quantifies the second interrupt over resting points of the drain loop only (see DESIGN 6, C14 scope)
  /\ mode = "normal" \/ (mode = "drain" /\ pc \in {"wait_sample", "wait_consume"})
  /\ intCount' = intCount + 1
  /\ hist' = Rec(<<"int", pc>>)
  /\ IF pc = "plan" THEN pc' = "raised" /\ exitk' = "KeyboardInterrupt" /\ UNCHANGED mode
     ELSE IF mode = "normal" THEN pc' = "int1_cancel" /\ mode' = "drain" /\ UNCHANGED exitk
     ELSE IF mode = "drain" THEN pc' = "int2_stop" /\ mode' = "final" /\ UNCHANGED exitk
     ELSE pc' = "closing" /\ exitk' = "KeyboardInterrupt" /\ UNCHANGED mode
  \* an inline serial execution is abandoned; a (task, res) pair in the body is dropped
  /\ cur' = 0
  /\ removable' = {}
  /\ batch' = <<>>
  /\ IF Serial /\ pc = "ser_run"
     THEN /\ running' = {} /\ inrun' = inrun \ {cur} /\ wst' = [wst EXCEPT ![cur] = "dead"]
     ELSE UNCHANGED <<running, inrun, wst>>
  /\ UNCHANGED <<ci, cfg, pend, ddeps, pdeps, pdependents, active, ready, rmap, ftt, subq, uc, epend, fut, rq,
                 deadS, wres, view, cached, store, subCount, viaCache, runCount, loadCount, fin, done, died,
                 captured, dig, reads, outKeys, outVals, lg>>
  /\ UNCHANGED gvars

Cancel ==                 \* runner.cancel(): cancel everything not yet started
  /\ pc = "int1_cancel"
  /\ fut' = [t \in Tasks |-> IF t \in Range(epend) THEN "cancelled" ELSE fut[t]]
  /\ epend' = <<>>
  /\ subq' = <<>>
  /\ pc' = "drain_check"
  /\ UNCHANGED <<ci, cfg, mode, pend, ddeps, pdeps, pdependents, active, ready, cur, removable, exitk, rmap, ftt,
                 uc, running, rq, deadS, batch, wst, wres, view, cached, store, subCount, viaCache, inrun,
                 runCount, loadCount, fin, done, died, captured, dig, reads, intCount, outKeys, outVals, hist, lg>>
  /\ UNCHANGED gvars

DrainCheck ==             \* while runner.pending_task_count() > 0: process_completed_tasks()
  /\ pc = "drain_check"
  /\ IF PendingCount > 0 THEN pc' = "wait_sample" /\ UNCHANGED exitk
     ELSE pc' = "closing" /\ exitk' = "KeyboardInterrupt"
  /\ UNCHANGED <<ci, cfg, mode, pend, ddeps, pdeps, pdependents, active, ready, cur, removable, rmap, ftt, subq,
                 uc, epend, running, fut, rq, deadS, batch, wst, wres, view, cached, store, subCount, viaCache,
                 inrun, runCount, loadCount, fin, done, died, captured, dig, reads, intCount, outKeys, outVals,
                 hist, lg>>
  /\ UNCHANGED gvars

Stop ==                   \* runner.stop(): terminate running processes, cancel their futures
  /\ pc = "int2_stop"
  /\ fut' = [t \in Tasks |-> IF t \in running /\ ~Serial THEN "cancelled" ELSE fut[t]]
  /\ wst' = [t \in Tasks |-> IF t \in running /\ ~Serial /\ wst[t] = "run" THEN "dead" ELSE wst[t]]
  /\ inrun' = IF Serial THEN inrun ELSE inrun \ running
  /\ running' = IF Serial THEN running ELSE {}
  /\ pc' = "wait_sample"
  /\ UNCHANGED <<ci, cfg, mode, pend, ddeps, pdeps, pdependents, active, ready, cur, removable, exitk, rmap, ftt,
                 subq, uc, epend, rq, deadS, batch, wres, view, cached, store, subCount, viaCache, runCount,
                 loadCount, fin, done, died, captured, dig, reads, intCount, outKeys, outVals, hist, lg>>
  /\ UNCHANGED gvars

Close ==                  \* finally: runner.close(); then return / re-raise; Lab.run_tasks builds the dict
  /\ pc = "closing"
  /\ IF exitk = "return"
     THEN /\ pc' = "returned"
          /\ outKeys' = SelectSeq(Dedup(cfg.req), LAMBDA t : t \in captured)
          /\ outVals' = [i \in 1..Len(outKeys') |-> dig[outKeys'[i]]]
     ELSE pc' = "raised" /\ UNCHANGED <<outKeys, outVals>>
  /\ pb' = IF Grow THEN [y \in DOMAIN pb |-> [pb[y] EXCEPT !.closed = pb[y].made]] ELSE pb     \* for pbar in pbars.values(): pbar.close()
  /\ UNCHANGED <<tdigits, tcount, tname, subSeq>>
  /\ UNCHANGED <<ci, cfg, mode, pend, ddeps, pdeps, pdependents, active, ready, cur, removable, exitk, rmap, ftt,
                 subq, uc, epend, running, fut, rq, deadS, batch, wst, wres, view, cached, store, subCount,
                 viaCache, inrun, runCount, loadCount, fin, done, died, captured, dig, reads, intCount, hist, lg>>

-----------------------------------------------------------------------------
(* ---- workers (process backends).  Partial-order restriction: a worker moves *)
(* only where the coordinator can observe the difference: before the liveness  *)
(* sample, between the sample and the drain of the result queue and (when log  *)
(* records are modelled) before the second drain of the log queue.             *)

ObsPoint == pc \in ({"wait_sample", "wait_consume"} \cup (IF Logs THEN {"wait_drain2"} ELSE {})) /\ ~Serial

WFinish(t) ==             \* run() or the load ends, the result is saved, the outcome is put on the queue
  /\ t \in Tasks /\ ObsPoint /\ wst[t] = "run" /\ t \in running
  /\ lg' = IF Logs /\ ~uc[t] THEN [lg EXCEPT !.q = Append(@, t), !.emit = Append(@, t)] ELSE lg  \* records precede the outcome
  /\ LET ok == RunOk(t) IN
       /\ fin' = [fin EXCEPT ![t] = IF ok THEN "ok" ELSE "fail"]
       /\ dig' = [dig EXCEPT ![t] = IF ok THEN RunVal(t) ELSE <<>>]
       /\ cached' = IF Saves(t) THEN cached \cup {t} ELSE cached
       /\ store' = [store EXCEPT ![t] = IF Saves(t) THEN RunVal(t) ELSE @]
       /\ wres' = [wres EXCEPT ![t] = IF ok THEN "ok" ELSE "ex"]
  /\ rq' = Append(rq, t)
  /\ wst' = [wst EXCEPT ![t] = "put"]
  /\ inrun' = inrun \ {t}
  /\ hist' = Rec(<<"fin", t>>)
  /\ UNCHANGED <<ci, cfg, pc, mode, pend, ddeps, pdeps, pdependents, active, ready, cur, removable, exitk, rmap,
                 ftt, subq, uc, epend, running, fut, deadS, batch, view, subCount, viaCache, runCount, loadCount,
                 done, died, captured, reads, intCount, outKeys, outVals>>
  /\ UNCHANGED gvars

WExit(t) ==               \* the process exits after having put its outcome
  /\ t \in Tasks /\ ObsPoint /\ wst[t] = "put" /\ t \in running
  /\ wst' = [wst EXCEPT ![t] = "exited"]
  /\ hist' = Rec(<<"exit", t>>)
  /\ UNCHANGED <<ci, cfg, pc, mode, pend, ddeps, pdeps, pdependents, active, ready, cur, removable, exitk, rmap,
                 ftt, subq, uc, epend, running, fut, rq, deadS, batch, wres, view, cached, store, subCount,
                 viaCache, inrun, runCount, loadCount, fin, done, died, captured, dig, reads, intCount, outKeys,
                 outVals, lg>>
  /\ UNCHANGED gvars

WDie(t) ==                \* the process is killed before it could report anything
  /\ AllowDie /\ t \in Tasks /\ ObsPoint /\ wst[t] = "run" /\ t \in running
  /\ wst' = [wst EXCEPT ![t] = "dead"]
  /\ fin' = [fin EXCEPT ![t] = "fail"]
  /\ died' = died \cup {t}
  /\ inrun' = inrun \ {t}
  /\ hist' = Rec(<<"die", t>>)
  /\ UNCHANGED <<ci, cfg, pc, mode, pend, ddeps, pdeps, pdependents, active, ready, cur, removable, exitk, rmap,
                 ftt, subq, uc, epend, running, fut, rq, deadS, batch, wres, view, cached, store, subCount,
                 viaCache, runCount, loadCount, done, captured, dig, reads, intCount, outKeys, outVals, lg>>
  /\ UNCHANGED gvars

Worker == \E t \in Tasks : WFinish(t) \/ WExit(t) \/ WDie(t)
Coordinator == Plan \/ LoopTop \/ Submit \/ WaitSample \/ WaitConsume \/ WaitDead \/ WaitDrain2 \/ Iter \/ SerPop \/ SerRun
               \/ Body \/ RemoveResults \/ Cancel \/ DrainCheck \/ Stop \/ Close

Next == Coordinator \/ Worker \/ Interrupt

Spec == Init /\ [][Next]_vars

(* Fairness for termination: the coordinator keeps stepping; a running worker  *)
(* eventually finishes (strongly fair: it is enabled only at observation       *)
(* points, i.e. intermittently).                                               *)
FairSpec == Spec /\ WF_vars(Coordinator) /\ \A t \in 1..3 : SF_vars(WFinish(t) \/ WDie(t))
Terminated == pc \in {"returned", "raised"}
C11_Termination == <>Terminated

-----------------------------------------------------------------------------
(* ---- refinement mapping to the property level ---- *)

Abs == INSTANCE LabRunAbs WITH
  cfg <- cfg,
  phase <- IF pc = "returned" THEN "returned" ELSE IF pc = "raised" THEN "raised" ELSE "running",
  exc <- IF pc = "raised" THEN <<exitk, "">> ELSE <<>>,
  subCount <- subCount, viaCache <- viaCache,
  slot <- running, inrun <- inrun, runCount <- runCount, loadCount <- loadCount,
  nslot <- [t \in Tasks |-> IF t \in running THEN 1 ELSE 0],       \* the executor holds at most one process per task
  nrun <- [t \in Tasks |-> IF t \in inrun THEN 1 ELSE 0],
  fin <- fin, done <- done, died <- died,
  held <- rmap, captured <- captured, dig <- dig, reads <- reads,
  atrest <- (pc = "wait_consume" \/ pc = "ser_run"),
  intCount <- intCount, outKeys <- outKeys, outVals <- outVals,
  lateStart <- FALSE, idlePolls <- 0,
  cachedNow <- cached,
  cacheVals <- [t \in Tasks |-> IF t \in cached THEN LoadVal(t) ELSE <<>>],    \* entries cached beforehand hold their epoch-0 value
  obsCache <- (pc \in {"returned", "raised"}),
  envok <- {},
  marks <- {}, emitted <- lg.emit, emitBy <- lg.emit, delivered <- lg.del, obsLogs <- (Logs /\ pc \in {"returned", "raised"}),
  subSeq <- subSeq,
  names <- [t \in Tasks |-> IF Grow /\ runCount[t] + loadCount[t] > 0
                            THEN (IF "tnames" \in DOMAIN cfg THEN cfg.tnames[cfg.typ[t]] ELSE "T")
                                 \o "[" \o ZFillL(ToString(tname[t]), tdigits[cfg.typ[t]]) \o "]"
                            ELSE ""],
  pbar <- pb

A_C01_Keys == Abs!C01_Keys
A_C01_Returns == Abs!C01_Returns
A_C01_Values == Abs!C01_Values
A_C01_Digest == Abs!C01_Digest
A_C02_RealResult == Abs!C02_RealResult
A_C02_SubmitAfterDeps == [][Abs!C02_SubmitAfterDeps_Step]_vars
A_C02_RunAfterDeps == [][Abs!C02_RunAfterDeps_Step]_vars
A_C02_StartAfterSubmit == [][Abs!C02_StartAfterSubmit_Step]_vars
A_C03_OnlyNeeded == Abs!C03_OnlyNeeded
A_C03_AtMostOnce == Abs!C03_AtMostOnce
A_C03_LoadIffCached == Abs!C03_LoadIffCached
A_C03_OutcomeStable == [][Abs!C03_OutcomeStable_Step]_vars
A_C04_Workers == Abs!C04_Workers
A_C04_Type == Abs!C04_Type
A_C05_AtRest == Abs!C05_AtRest
A_C10_OnlyOwnFailures == Abs!C10_OnlyOwnFailures
A_C10_Continue == Abs!C10_Continue
A_C10_NoValueForFailed == Abs!C10_NoValueForFailed
A_C10_CachedOk == Abs!C10_CachedOk
A_C10_FailFast == Abs!C10_FailFast
A_C11_NoIdleWait == Abs!C11_NoIdleWait
A_C14_ExitClass == Abs!C14_ExitClass
A_C14_NoStartAfterInterrupt == [][Abs!C14_NoStartAfterInterrupt_Step]_vars
A_C14_RunningFinish == Abs!C14_RunningFinish
A_C14_RunningCached == Abs!C14_RunningCached
A_C14_CacheConsistent == Abs!C14_CacheConsistent
A_C17_Retained == Abs!C17_Retained
A_C17_Prompt == Abs!C17_Prompt
A_C17_Captured == Abs!C17_Captured
A_C17_EmptyAtReturn == Abs!C17_EmptyAtReturn
A_C17_OnlyNew == [][Abs!C17_OnlyNew_Step]_vars
A_C19_ExactlyOnce == Abs!C19_ExactlyOnce
A_C19_DeliveredBeforeRaise == Abs!C19_DeliveredBeforeRaise
A_C19_NeverTwice == Abs!C19_NeverTwice
A_G01_Names == Abs!G01_Names
A_G02_Bars == Abs!G02_Bars
A_G02_Count == Abs!G02_Count
A_G02_Closed == Abs!G02_Closed

(* ---- implementation-level bookkeeping invariants (not property verdicts) ---- *)
I_Pdeps == \A t \in Tasks : pdeps[t] = {d \in ddeps[t] : done[d] = "none"}
I_Pdependents == \A d \in Tasks : pdependents[d] = {t \in Tasks : d \in ddeps[t] /\ done[t] = "none"}
I_Future == ~Serial => \A t \in Tasks : /\ t \in running => fut[t] \in {"pending"}
                             /\ t \in Range(epend) => fut[t] = "pending"
I_RunningCap == Cardinality(running) <= MaxW

(* ---- schedule output for replay (simulation mode) ---- *)
PrintSchedule ==
  (RecordHist /\ Terminated) =>
     PrintT("@@" \o ToJson([ci |-> ci, hist |-> hist, exit |-> exitk, pcend |-> pc]))
=============================================================================
