------------------------------- MODULE SaveObs -------------------------------
(***************************************************************************)
(* Observation specification for the save path (C12, C13).                 *)
(*                                                                         *)
(* The file named by LV_OBS holds one JSON object per line: what a later   *)
(* process observed after one fault / crash was injected into a real save  *)
(* (lv/rigs/savefault.py).  For every observation the POSTCONDITION        *)
(* prints                                                                  *)
(*   poison  -- SaveProtocol!ObsPoison: the property-level judgement       *)
(*   notfailed -- a raising save did not make the task fail (C12)          *)
(*   drift   -- the recorded operation sequence of the unfaulted save is   *)
(*              not the sequence of the implementation-level protocol      *)
(* The same TLC run model-checks the protocol itself (SPECIFICATION Spec). *)
(***************************************************************************)
EXTENDS SaveProtocol, Json, IOUtils

Obs == ndJsonDeserialize(IOEnv.LV_OBS)

RECURSIVE Collapse(_)
Collapse(s) == IF Len(s) <= 1 THEN s
               ELSE IF s[1] = s[2] /\ s[1] \in {"write_meta", "write_data"} THEN Collapse(Tail(s))
               ELSE <<s[1]>> \o Collapse(Tail(s))

Expected == <<"open_meta", "close_meta", "open_data", "write_data", "close_data", "open_meta", "write_meta", "close_meta">>
Drift(o) == o.mode = "record" /\ o.fault_free /\ Collapse(o.ops) # Expected

NotFailed(o) == o.mode \in {"raise", "line-raise", "inherent"} /\ o.fault_hit /\ ~o.task_failed

Verdicts ==
  \A k \in 1..Len(Obs) :
    TLCGet("distinct") >= 0 /\     \* (a POSTCONDITION may not be a constant-level formula)
    PrintT("@@" \o ToJson([id |-> Obs[k].id, poison |-> ObsPoison(Obs[k]), notfailed |-> NotFailed(Obs[k]),
                           drift |-> Drift(Obs[k])]))
=============================================================================
