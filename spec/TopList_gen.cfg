CONSTANTS
  MaxInfos = 4
  MaxTop = 3
SPECIFICATION CaseSpec
INVARIANT I_Size
INVARIANT I_Sorted
INVARIANT I_TopOnes
INVARIANT I_Aligned
INVARIANT Emit
