CONSTANTS
  MaxLen = 0
SPECIFICATION Spec
INVARIANT TypeOK
POSTCONDITION JudgePost
