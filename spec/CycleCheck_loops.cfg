CONSTANTS
  N = 3
  Loops = TRUE
SPECIFICATION GSpec
INVARIANT I_Verdict
INVARIANT I_VisitedAll
INVARIANT Emit
