CONSTANTS
  Proto = "meta-first"
  Overwrite = FALSE
  Enumerate = TRUE
SPECIFICATION Spec
INVARIANT NoPoison
