CONSTANTS
  KeyLen = 2
  FileLen = 3
SPECIFICATION DummySpec
INVARIANT DummyInv
POSTCONDITION EmitPost
