CONSTANTS
  KeyLen = 2
  FileLen = 3
SPECIFICATION CaseSpec
INVARIANT I_Confined
INVARIANT I_NothingOutside
INVARIANT I_DeleteAtMostOneChild
INVARIANT I_ExistsTouchesNothing
POSTCONDITION EmitPost
