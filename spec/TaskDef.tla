------------------------------ MODULE TaskDef ------------------------------
(***************************************************************************)
(* What the class decorator labtech.task accepts, and what the task type   *)
(* it returns is like (growth beyond the listed properties; every other    *)
(* specification starts from task types that were accepted).               *)
(*                                                                         *)
(* A case is one class definition:                                         *)
(*   form      "bare" (@task) / "call" (@task(...))                        *)
(*   base      "object" / "task" (the class extends a task type that has   *)
(*             cache=None, max_parallel=2 and its own run())               *)
(*   reserved  "none" or the reserved attribute the class body defines     *)
(*   run       "method" / "absent" / "attr" (run = 5, not callable)        *)
(*   cache     "default" / "none" / "inst" (a Cache instance)              *)
(*   maxpar    "unset" / "1" / "3"                                         *)
(*   post, filt   the body defines post_init / filter_context              *)
(* IMPLEMENTATION LEVEL (transcribed order of the decorator's steps):      *)
(* reserved names are refused only when the class is not already a task    *)
(* type (a subclass of a task type inherits all of them -- unless its body *)
(* rebinds _lt, which makes it a non-task class again); run is looked up   *)
(* after the dataclass conversion, so an inherited run() satisfies it;     *)
(* cache and max_parallel come from THIS decoration only -- they are not   *)
(* inherited from a task base (SubResets).                                 *)
(***************************************************************************)
EXTENDS Naturals, Sequences, FiniteSets, TLC, Json, IOUtils

Reserved == {"_lt", "_is_task", "cache_key", "result", "_results_map", "_set_results_map",
             "result_meta", "_set_result_meta", "context", "set_context", "__post_init__"}
Cases == {c \in [form : {"bare", "call"}, base : {"object", "task"}, reserved : {"none"} \cup Reserved,
                 run : {"method", "absent", "attr"}, cache : {"default", "none", "inst"}, maxpar : {"unset", "1", "3"},
                 post : BOOLEAN, filt : BOOLEAN] :
            c.form = "bare" => (c.cache = "default" /\ c.maxpar = "unset")}

StillTaskType(c) == c.base = "task" /\ c.reserved # "_lt"       \* a body that rebinds _lt hides the inherited TaskInfo
Err(c) == IF ~StillTaskType(c) /\ c.reserved # "none" THEN "AttributeError"
          ELSE IF c.run = "attr" \/ (c.run = "absent" /\ c.base = "object") THEN "NotImplementedError"
          ELSE ""
CacheOf(c) == IF c.cache = "default" THEN "PickleCache" ELSE IF c.cache = "none" THEN "NullCache" ELSE "InstCache"
MaxParOf(c) == IF c.maxpar = "unset" THEN "None" ELSE c.maxpar
Expected(c) == [err |-> Err(c), cache |-> CacheOf(c), maxpar |-> MaxParOf(c), post_calls |-> IF c.post THEN 1 ELSE 0,
                own_filter |-> c.filt, own_run |-> c.run = "method", frozen |-> TRUE, is_task_type |-> TRUE, is_task |-> TRUE,
                eq_same |-> TRUE, result_before_run |-> "TaskError"]

VARIABLE case
CaseSpec == case \in Cases /\ [][UNCHANGED case]_case
(* what the rest of the machinery relies on *)
I_SubResets == (case.base = "task" /\ Err(case) = "" /\ case.cache = "default" /\ case.maxpar = "unset")
                  => (CacheOf(case) = "PickleCache" /\ MaxParOf(case) = "None")       \* nothing of the base's options survives
I_ReservedRefused == (case.base = "object" /\ case.reserved # "none") => Err(case) = "AttributeError"
I_RunRequired == (Err(case) = "") => (case.run = "method" \/ (case.run = "absent" /\ case.base = "task"))
Emit == PrintT("@@" \o ToJson(case))

(* ---- judging what the real decorator did ---- *)
Obs == IF "LV_OBS" \in DOMAIN IOEnv THEN ndJsonDeserialize(IOEnv.LV_OBS) ELSE <<>>
Agrees(o) == LET e == Expected(o.case) IN
             IF e.err # "" THEN o.got.err = e.err ELSE o.got = e
Judge(x) == \A k \in 1..Len(Obs) : x >= 0 /\ PrintT("@@" \o ToJson([id |-> Obs[k].id, ok |-> Agrees(Obs[k])]))
JudgePost == Judge(TLCGet("distinct"))
=============================================================================
