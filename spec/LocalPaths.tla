----------------------------- MODULE LocalPaths -----------------------------
(***************************************************************************)
(* LocalStorage never reads, writes or deletes outside its directory (C18) *)
(*                                                                         *)
(* A small filesystem (paths are sequences of names from the root):        *)
(*   /base/S            the storage directory, holding                     *)
(*      k1/             a key directory: f, f2 (files), sub/ (with h),     *)
(*                      lnout -> /base/out/secret, lnsib -> k1/f2,         *)
(*                      lnk2 -> ../k2/g, lndang -> /base/out/ghost (absent) *)
(*      k2/             a sibling key directory with file g                *)
(*      file0           a regular file directly in S                       *)
(*      lkout -> /base/out     lksib -> k2     ldang -> /base/none         *)
(*   /base/out          outside: secret (file), od/ (directory)            *)
(*   /base/S2           a sibling whose name extends the storage           *)
(*                      directory's name: res/ with file p; S/lkpre -> it  *)
(* Keys and filenames are strings made by concatenating tokens; "/" splits *)
(* components, ABS_* tokens are absolute paths.                            *)
(*                                                                         *)
(* IMPLEMENTATION LEVEL: Resolve (non-strict Path.resolve: symlinks are    *)
(* followed, ".." pops the *resolved* prefix, missing components are kept  *)
(* lexically), validate_file_path_key, and the three operations with the   *)
(* set of paths each one touches (creates, opens, truncates, removes).     *)
(* PROPERTY LEVEL: Confined -- everything touched is one direct child of S *)
(* or a file directly inside that child; ObsConfined is the same judgement *)
(* on the touched set observed from the real code (LocalPathsObs).         *)
(***************************************************************************)
EXTENDS Naturals, Sequences, FiniteSets, TLC, Json, SequencesExt

S == <<"base", "S">>
OUT == <<"base", "out">>
K1 == S \o <<"k1">>
K2 == S \o <<"k2">>

SPRE == <<"base", "S2">>                      \* a sibling of the storage directory whose name has the storage directory's name as a prefix
Dirs == {<<>>, <<"base">>, S, K1, K1 \o <<"sub">>, K2, OUT, OUT \o <<"od">>, SPRE, SPRE \o <<"res">>}
Files == {K1 \o <<"f">>, K1 \o <<"f2">>, K1 \o <<"sub", "h">>, K2 \o <<"g">>, S \o <<"file0">>, S \o <<".gitignore">>,
          OUT \o <<"secret">>, SPRE \o <<"res", "p">>}
LinkTargets == [p \in {K1 \o <<"lnout">>, K1 \o <<"lnsib">>, K1 \o <<"lnk2">>, K1 \o <<"lndang">>, S \o <<"lkout">>, S \o <<"lksib">>, S \o <<"ldang">>,
                       S \o <<"lkpre">>} |->
                  CASE p = K1 \o <<"lnout">> -> OUT \o <<"secret">>
                    [] p = K1 \o <<"lnsib">> -> K1 \o <<"f2">>
                    [] p = K1 \o <<"lnk2">> -> K2 \o <<"g">>
                    [] p = K1 \o <<"lndang">> -> OUT \o <<"ghost">>        \* dangling, pointing outside
                    [] p = S \o <<"lkout">> -> OUT
                    [] p = S \o <<"lksib">> -> K2
                    [] p = S \o <<"ldang">> -> <<"base", "none">>
                    [] p = S \o <<"lkpre">> -> SPRE \o <<"res">>]
IsLink(p) == p \in DOMAIN LinkTargets
Exists(p) == p \in Dirs \cup Files          \* after resolution (a resolved path never ends in a link)
Parent(p) == IF p = <<>> THEN <<>> ELSE SubSeq(p, 1, Len(p) - 1)

(* ---- strings from tokens ---- *)
RECURSIVE Concat(_)
Concat(ts) == IF ts = <<>> THEN "" ELSE Head(ts) \o Concat(Tail(ts))

Abs == [t \in {"ABS_SECRET", "ABS_F", "ABS_OUT"} |->
          CASE t = "ABS_SECRET" -> OUT \o <<"secret">> [] t = "ABS_F" -> K1 \o <<"f">> [] t = "ABS_OUT" -> OUT]

(* components of the string made of tokens ts: "/" separates; [abs |-> BOOLEAN, comps |-> seq of names] *)
RECURSIVE Comps(_, _, _)
Comps(ts, cur, acc) ==       \* cur = name being accumulated, acc = components so far
  IF ts = <<>> THEN Append(acc, cur)
  ELSE IF Head(ts) = "/" THEN Comps(Tail(ts), "", Append(acc, cur))
  ELSE Comps(Tail(ts), cur \o Head(ts), acc)
PathOf(ts) ==
  IF ts # <<>> /\ Head(ts) \in DOMAIN Abs
  THEN LET a == Abs[Head(ts)] IN      \* what follows is concatenated to the last name of the absolute path
       [abs |-> TRUE, comps |-> Comps(Tail(ts), a[Len(a)], SubSeq(a, 1, Len(a) - 1))]
  ELSE IF ts # <<>> /\ Head(ts) = "/" THEN [abs |-> TRUE, comps |-> Comps(Tail(ts), "", <<>>)]
  ELSE [abs |-> FALSE, comps |-> Comps(ts, "", <<>>)]

(* ---- Resolve: follow symlinks, physical "..", lexical tail ---- *)
RECURSIVE Res(_, _, _)
Res(cur, cs, fuel) ==
  IF cs = <<>> THEN cur
  ELSE LET c == Head(cs) IN
       IF c \in {"", "."} THEN Res(cur, Tail(cs), fuel)
       ELSE IF c = ".." THEN Res(Parent(cur), Tail(cs), fuel)
       ELSE LET p == Append(cur, c) IN
            IF IsLink(p) /\ fuel > 0 THEN Res(<<>>, LinkTargets[p] \o Tail(cs), fuel - 1)
            ELSE Res(p, Tail(cs), fuel)
Resolve(start, path) == Res(IF path.abs THEN <<>> ELSE start, path.comps, 8)

(* ---- validate_file_path_key + _key_to_path ---- *)
BadKeyToken(t) == t \in {".", "..", "/", "\\", "k1.x", "ABS_OUT", "ABS_F", "ABS_SECRET"}     \* contain '.', '/' or '\'
KeyErr(kts) == Concat(kts) = "" \/ (\E i \in DOMAIN kts : BadKeyToken(kts[i]))
KeyPath(kts) == Resolve(S, [abs |-> FALSE, comps |-> <<Concat(kts)>>])
KeyOk(kts) == ~KeyErr(kts) /\ Parent(KeyPath(kts)) = S

(* ---- the operations: [err |-> BOOLEAN, touched |-> set of paths created / opened / changed / removed] ---- *)
OpExists(kts) == [err |-> ~KeyOk(kts), touched |-> {}]

Under(p, d) == Len(p) >= Len(d) /\ SubSeq(p, 1, Len(d)) = d
OpDelete(kts) ==
  IF ~KeyOk(kts) THEN [err |-> TRUE, touched |-> {}]
  ELSE LET kp == KeyPath(kts) IN
       IF kp \in Dirs THEN [err |-> FALSE, touched |-> {p \in Dirs \cup Files \cup DOMAIN LinkTargets : Under(p, kp)}]
       ELSE IF kp \in Files THEN [err |-> TRUE, touched |-> {kp}]      \* rmtree on a regular file raises
       ELSE [err |-> FALSE, touched |-> {}]

OpFileHandle(kts, fts, mode) ==     \* touched = what is attempted: mkdir of the key directory always, open of the file once validated
  IF ~KeyOk(kts) THEN [err |-> TRUE, touched |-> {}]
  ELSE LET kp == KeyPath(kts)
           fp == Resolve(kp, PathOf(fts)) IN
       IF Parent(fp) # kp \/ fp = kp THEN [err |-> TRUE, touched |-> {kp}]
       ELSE IF kp \in Files \/ fp \in Dirs THEN [err |-> TRUE, touched |-> {kp, fp}]   \* not a directory / is a directory
       ELSE IF mode \in {"r", "rb", "r+"} /\ fp \notin Files THEN [err |-> TRUE, touched |-> {kp, fp}]
       ELSE IF mode = "x" /\ fp \in Files THEN [err |-> TRUE, touched |-> {kp, fp}]
       ELSE [err |-> FALSE, touched |-> {kp, fp}]

(* ---- property level ---- *)
Confined(touched) ==
  \/ touched = {}
  \/ \E child \in {p \in UNION {{q, Parent(q)} : q \in touched} : Parent(p) = S} :
        \A p \in touched : p = child \/ Parent(p) = child \/ (Under(p, child))
ConfinedStrict(touched, removing) ==      \* writes / reads: the child itself or files directly inside it; removal: the child's tree
  \/ touched = {}
  \/ \E child \in {p \in UNION {{q, Parent(q)} : q \in touched} : Parent(p) = S} :
        \A p \in touched : p = child \/ Parent(p) = child \/ (removing /\ Under(p, child))

-----------------------------------------------------------------------------
(* ---- the bounded grammar of cases ---- *)
KeyTokens == {"k1", "k2", "new", "lkout", "lksib", "ldang", "lkpre", "file0", ".", "..", "/", "\\", "k1.x", "", "ABS_OUT"}
FileTokens == {"f", "f2", "new", "lnout", "lnsib", "lnk2", "lndang", "sub", "h", "g", "k2", "..", ".", "/", "\\", "", "ABS_SECRET", "ABS_F"}
Modes == {"r", "w", "a", "x", "rb", "wb", "r+", "w+"}
CONSTANTS KeyLen, FileLen
SeqsUpTo(T, n) == UNION {[1..k -> T] : k \in 0..n}
Keys == SeqsUpTo(KeyTokens, KeyLen)
FhKeys == {<<"k1">>, <<"new">>, <<"lksib">>, <<"file0">>, <<"lkout">>, <<"ldang">>, <<"lkpre">>, <<"k1.x">>, <<"..">>, <<>>, <<"k", "1">>}
FileNames == {f \in SeqsUpTo(FileTokens, FileLen) : \A i \in DOMAIN f : i > 1 => f[i] \notin DOMAIN Abs}   \* absolute paths only as prefix

(* As a state space: one initial state per case <<op, key tokens, filename tokens, mode>>; the invariants say that what *)
(* the transcribed operation touches is confined.                                                                      *)
VARIABLE case
(* "mut:" cases: the key is first used while it is harmless (absent, then a real directory), then its name is replaced *)
(* by a symlink to the outside directory, then the operation runs: it must behave exactly as for the key "lkout".     *)
MutCases == {<<"mut:exists", <<"new">>, <<>>, "">>, <<"mut:delete", <<"new">>, <<>>, "">>}
            \cup {<<"mut:file_handle", <<"new">>, f, m>> : f \in {<<"secret">>, <<"n">>, <<"od">>}, m \in {"r", "w", "a"}}
Cases == {<<"exists", k, <<>>, "">> : k \in Keys} \cup {<<"delete", k, <<>>, "">> : k \in Keys}
         \cup {<<"file_handle", k, f, m>> : k \in FhKeys, f \in FileNames, m \in Modes} \cup MutCases
Result(c) == IF c[1] = "exists" THEN OpExists(c[2]) ELSE IF c[1] = "delete" THEN OpDelete(c[2])
             ELSE IF c[1] = "file_handle" THEN OpFileHandle(c[2], c[3], c[4])
             ELSE IF c[1] = "mut:exists" THEN OpExists(<<"lkout">>) ELSE IF c[1] = "mut:delete" THEN OpDelete(<<"lkout">>)
             ELSE OpFileHandle(<<"lkout">>, c[3], c[4])
CaseSpec == case \in Cases /\ [][UNCHANGED case]_case
I_Confined == ConfinedStrict(Result(case).touched, case[1] \in {"delete", "mut:delete"})
I_NothingOutside == \A p \in Result(case).touched : Under(p, S) /\ p # S
I_DeleteAtMostOneChild == case[1] \in {"delete", "mut:delete"} => Cardinality({p \in Result(case).touched : Parent(p) = S}) <= 1
I_ExistsTouchesNothing == case[1] \in {"exists", "mut:exists"} => Result(case).touched = {}
DummySpec == CaseSpec
DummyInv == TRUE

EmitCases(x) ==
  \A c \in Cases : x >= 0 /\ PrintT("@@" \o ToJson([op |-> c[1], key |-> c[2], fn |-> c[3], mode |-> c[4],
                                                     err |-> Result(c).err, touched |-> SetToSeq(Result(c).touched)]))
EmitPost == EmitCases(TLCGet("distinct"))
=============================================================================
