CONSTANTS
  Logs = FALSE
  RecordHist = TRUE
  MaxInt = 0
  AllowDie = TRUE
SPECIFICATION Spec
INVARIANT PrintSchedule
