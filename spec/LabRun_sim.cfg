CONSTANTS
  Logs = FALSE
  RecordHist = TRUE
  MaxInt = 0
  Grow = FALSE
  AllowDie = TRUE
SPECIFICATION Spec
INVARIANT PrintSchedule
