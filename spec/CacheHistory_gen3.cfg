CONSTANTS
  MaxLen = 3
  Emit = FALSE
SPECIFICATION Spec
INVARIANT OnlyCacheableStored
INVARIANT StoredValuesWellFormed
INVARIANT PrintHistory
PROPERTY OnlyOwnEntryChanges
