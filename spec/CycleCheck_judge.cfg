CONSTANTS
  N = 1
  Loops = FALSE
SPECIFICATION GSpec
POSTCONDITION JudgePost
