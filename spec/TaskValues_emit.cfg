SPECIFICATION DummySpec
INVARIANT DummyInv
POSTCONDITION EmitPost
